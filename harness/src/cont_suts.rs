//! Stand-alone ogre_std containers (C18): the atomic-flag stack, the parking-lot stack and the two
//! non-blocking queues -- under the deterministic scheduler (those built on shimmed atomics) and free-running.

use crate::sched::Ctx;
use crate::Sut;
use reactive_mutiny::ogre_std::ogre_queues::{
    atomic::atomic_move::AtomicMove, full_sync::full_sync_move::FullSyncMove, meta_container::MoveContainer, meta_publisher::MovePublisher,
    meta_subscriber::MoveSubscriber, OgreQueue,
};
use reactive_mutiny::ogre_std::ogre_stacks::{non_blocking_atomic_stack, non_blocking_parking_lot_stack, OgreStack};
use serde_json::{json, Value};
use std::sync::Arc;

type QAtomic<const N: usize> = reactive_mutiny::ogre_std::ogre_queues::atomic::NonBlockingQueue<u32, N, 0>;
type QFullSync<const N: usize> = reactive_mutiny::ogre_std::ogre_queues::full_sync::NonBlockingQueue<u32, N, 0>;
type SAtomic<const N: usize> = non_blocking_atomic_stack::Stack<u32, N, false, false>;
type SParking<const N: usize> = non_blocking_parking_lot_stack::Stack<u32, N, false, false>;

/// what every container offers
pub trait Cont: Send + Sync {
    fn put(&self, v: u32) -> bool;
    fn take(&self) -> Option<u32>;
    fn len(&self) -> usize;
}

pub struct QueueC<Q: OgreQueue<u32> + Send + Sync>(pub Q);
impl<Q: OgreQueue<u32> + Send + Sync> Cont for QueueC<Q> {
    fn put(&self, v: u32) -> bool {
        self.0.enqueue(v).is_none()
    }
    fn take(&self) -> Option<u32> {
        self.0.dequeue()
    }
    fn len(&self) -> usize {
        self.0.len()
    }
}

pub struct StackC<S: OgreStack<u32> + Send + Sync>(pub S);
impl<S: OgreStack<u32> + Send + Sync> Cont for StackC<S> {
    fn put(&self, v: u32) -> bool {
        self.0.push(v)
    }
    fn take(&self) -> Option<u32> {
        self.0.pop()
    }
    fn len(&self) -> usize {
        self.0.len()
    }
}

pub struct RingA<const N: usize>(pub AtomicMove<u32, N>);
impl<const N: usize> Cont for RingA<N> {
    fn put(&self, v: u32) -> bool {
        self.0.publish_movable(v).0.is_some()
    }
    fn take(&self) -> Option<u32> {
        self.0.consume_movable()
    }
    fn len(&self) -> usize {
        self.0.available_elements_count()
    }
}
pub struct RingF<const N: usize>(pub FullSyncMove<u32, N>);
impl<const N: usize> Cont for RingF<N> {
    fn put(&self, v: u32) -> bool {
        self.0.publish_movable(v).0.is_some()
    }
    fn take(&self) -> Option<u32> {
        self.0.consume_movable()
    }
    fn len(&self) -> usize {
        self.0.available_elements_count()
    }
}

struct SendSync<T>(T);
unsafe impl<T> Send for SendSync<T> {}
unsafe impl<T> Sync for SendSync<T> {}
impl<T: OgreStack<u32>> OgreStack<u32> for SendSync<T> {
    fn new(n: String) -> Self {
        SendSync(T::new(n))
    }
    fn push(&self, e: u32) -> bool {
        self.0.push(e)
    }
    fn pop(&self) -> Option<u32> {
        self.0.pop()
    }
    fn len(&self) -> usize {
        self.0.len()
    }
    fn is_empty(&self) -> bool {
        self.0.is_empty()
    }
    fn buffer_size(&self) -> usize {
        self.0.buffer_size()
    }
    fn debug_enabled(&self) -> bool {
        false
    }
    fn metrics_enabled(&self) -> bool {
        false
    }
    fn stack_name(&self) -> &str {
        ""
    }
    fn implementation_name(&self) -> &str {
        ""
    }
}

fn mk<const N: usize>(kind: &str) -> Option<Arc<dyn Cont>> {
    Some(match kind {
        "stack_atomic" => Arc::new(StackC(SendSync(SAtomic::<N>::new("s".into())))),
        "stack_parking" => Arc::new(StackC(SendSync(SParking::<N>::new("s".into())))),
        "queue_nb_atomic" => Arc::new(QueueC(QAtomic::<N>::new("q"))),
        "queue_nb_fullsync" => Arc::new(QueueC(QFullSync::<N>::new("q"))),
        "ring_atomic_c" => Arc::new(RingA(AtomicMove::<u32, N>::new())),
        "ring_fullsync_c" => Arc::new(RingF(FullSyncMove::<u32, N>::new())),
        _ => return None,
    })
}

pub fn make_cont(kind: &str, n: u64) -> Option<Arc<dyn Cont>> {
    match n {
        2 => mk::<2>(kind),
        4 => mk::<4>(kind),
        8 => mk::<8>(kind),
        16 => mk::<16>(kind),
        _ => None,
    }
}

pub struct ContSut {
    c: Arc<dyn Cont>,
    lifo: bool,
}

pub fn make(kind: &str, scn: &Value) -> Option<Arc<dyn Sut>> {
    let n = scn["n"].as_u64().unwrap_or(2);
    make_cont(kind, n).map(|c| Arc::new(ContSut { c, lifo: kind.starts_with("stack") }) as Arc<dyn Sut>)
}

impl Sut for ContSut {
    fn exec(&self, _ctx: &Ctx, op: &Value) -> Value {
        match op["op"].as_str().unwrap() {
            "enq" | "push" => json!({"ok": self.c.put(op["v"].as_u64().unwrap() as u32), "v": 0}),
            "deq" | "pop" => match self.c.take() {
                Some(v) => json!({"ok": true, "v": v}),
                None => json!({"ok": false, "v": 0}),
            },
            "len" => json!({"ok": true, "v": self.c.len()}),
            other => panic!("container: unknown op {other}"),
        }
    }

    fn finish(&self, _stalled: bool) -> Value {
        let len = self.c.len();
        let mut drained = vec![];
        while let Some(v) = self.c.take() {
            drained.push(v);
            if drained.len() > 64 {
                break;
            }
        }
        if self.lifo {
            drained.reverse(); // bottom of the stack first = insertion order, as the oracle keeps it
        }
        json!({"hard": false, "len": len, "drained": drained})
    }
}
