//! Maps a call site (file, line) of the crate under test to (enclosing function, accessed field),
//! by reading the source line from /repo's working tree.  The triple (function, field, operation)
//! is what the trace specifications match on, so line shifts do not matter.

use std::collections::HashMap;
use std::sync::Mutex;

static CACHE: Mutex<Option<HashMap<(String, u32, u32), (String, String)>>> = Mutex::new(None);
static FILES: Mutex<Option<HashMap<String, Vec<String>>>> = Mutex::new(None);

fn is_ident(c: char) -> bool {
    c.is_alphanumeric() || c == '_'
}

const METHODS: [&str; 9] = [
    ".load(", ".store(", ".swap(", ".fetch_add(", ".fetch_sub(", ".compare_exchange_weak(", ".compare_exchange(", "ogre_sync::lock(", "ogre_sync::unlock(",
];

fn field_of(line: &str, col: u32) -> String {
    // the column of a #[track_caller] location points at the method name of the call: `self.tail.load(..)`
    //                                                                                            ^
    let c = col as usize;
    if c >= 2 && c <= line.len() && line.is_char_boundary(c - 1) {
        let at = &line[c - 1..];
        let is_method = ["load(", "store(", "swap(", "fetch_add(", "fetch_sub(", "compare_exchange_weak(", "compare_exchange("].iter().any(|m| at.starts_with(m));
        if is_method && line[..c - 1].ends_with('.') {
            let before = &line[..c - 2];
            let id: String = before.chars().rev().take_while(|ch| is_ident(*ch)).collect::<String>().chars().rev().collect();
            if !id.is_empty() {
                return id;
            }
        }
    }
    for m in METHODS.iter() {
        if let Some(pos) = line.find(m) {
            if m.starts_with("ogre_sync") {
                // ogre_sync::lock(&self.concurrency_guard)
                let rest = &line[pos + m.len()..];
                let end = rest.find(')').unwrap_or(rest.len());
                let arg = &rest[..end];
                let id: String = arg.chars().rev().take_while(|c| is_ident(*c)).collect::<String>().chars().rev().collect();
                return id;
            }
            let before = &line[..pos];
            let id: String = before.chars().rev().take_while(|c| is_ident(*c)).collect::<String>().chars().rev().collect();
            return id;
        }
    }
    String::new()
}

fn fn_of(lines: &[String], line_idx: usize) -> String {
    let mut i = line_idx as isize;
    while i >= 0 {
        let l = &lines[i as usize];
        if let Some(pos) = l.find("fn ") {
            // skip closures / comments
            let trimmed = l.trim_start();
            if !trimmed.starts_with("//") {
                let rest = &l[pos + 3..];
                let id: String = rest.chars().take_while(|c| is_ident(*c)).collect();
                if !id.is_empty() {
                    return id;
                }
            }
        }
        i -= 1;
    }
    String::new()
}

pub fn lookup(file: &str, line: u32, col: u32) -> (String, String) {
    let key = (file.to_string(), line, col);
    {
        let c = CACHE.lock().unwrap();
        if let Some(m) = c.as_ref() {
            if let Some(v) = m.get(&key) {
                return v.clone();
            }
        }
    }
    let mut files = FILES.lock().unwrap();
    let files = files.get_or_insert_with(HashMap::new);
    let lines = files.entry(file.to_string()).or_insert_with(|| {
        let candidates = [file.to_string(), format!("/repo/{file}")];
        for c in candidates.iter() {
            if let Ok(s) = std::fs::read_to_string(c) {
                return s.lines().map(|l| l.to_string()).collect();
            }
        }
        vec![]
    });
    let res = if (line as usize) >= 1 && (line as usize) <= lines.len() {
        let idx = line as usize - 1;
        (fn_of(lines, idx), field_of(&lines[idx], col))
    } else {
        (String::new(), String::new())
    };
    let mut c = CACHE.lock().unwrap();
    c.get_or_insert_with(HashMap::new).insert(key, res.clone());
    res
}
