//! OgreArc / OgreUnique handles (C14): named handles to pooled values, cloned / dropped / dereferenced from several threads.

use crate::chan_suts::{anomalies_snapshot, drops_snapshot, reset_instruments, Pay, Tracked, WatchAlloc};
use crate::sched::Ctx;
use crate::Sut;
use reactive_mutiny::prelude::advanced::*;
use serde_json::{json, Value};
use std::collections::HashMap;
use std::sync::{Arc, Mutex};

const N: usize = 4;
type Alloc = WatchAlloc<Tracked, AllocatorAtomicArray<Tracked, N>>;

enum Handle {
    Shared(OgreArc<Tracked, Alloc>),
    Unique(OgreUnique<Tracked, Alloc>),
}

pub struct HandleSut {
    alloc: &'static Alloc,
    names: Mutex<HashMap<String, (Arc<Handle>, u64)>>,
    pre: Mutex<Vec<(Value, Value)>>,
}

unsafe impl Send for HandleSut {}
unsafe impl Sync for HandleSut {}

fn drops_of(v: u64) -> u64 {
    let d = drops_snapshot();
    d.as_array().unwrap().iter().find(|x| x[0].as_u64() == Some(v)).map(|x| x[1].as_u64().unwrap()).unwrap_or(0)
}

pub fn make(kind: &str, scn: &Value) -> Option<Arc<dyn Sut>> {
    if kind != "ogre_handles" {
        return None;
    }
    reset_instruments();
    // the allocator outlives every handle (leaked on purpose: handles keep a 'static reference to it)
    let alloc: &'static Alloc = Box::leak(Box::new(Alloc::new()));
    let sut = HandleSut { alloc, names: Mutex::new(HashMap::new()), pre: Mutex::new(vec![]) };
    for op in scn["pre"].as_array().cloned().unwrap_or_default() {
        let r = sut.run(&op);
        sut.pre.lock().unwrap().push((op, r));
    }
    Some(Arc::new(sut))
}

impl HandleSut {
    /// removes the handle from the table (for operations that consume it); the caller must be its only user
    fn take(&self, name: &str) -> Option<(Handle, u64)> {
        let (h, v) = self.names.lock().unwrap().remove(name)?;
        match Arc::try_unwrap(h) {
            Ok(h) => Some((h, v)),
            Err(_) => panic!("handle {name} is consumed while another thread is using it (scenario error)"),
        }
    }
    /// borrows the handle: several threads may use the same handle at once (it is `Sync`)
    fn share(&self, name: &str) -> Option<(Arc<Handle>, u64)> {
        self.names.lock().unwrap().get(name).map(|(h, v)| (Arc::clone(h), *v))
    }
    fn put(&self, name: &str, h: Handle, v: u64) {
        self.names.lock().unwrap().insert(name.to_string(), (Arc::new(h), v));
    }

    fn run(&self, op: &Value) -> Value {
        let s = |k: &str| op[k].as_str().unwrap_or("").to_string();
        match op["op"].as_str().unwrap() {
            "nop" => json!({"ok": true, "v": 0}),
            "new" => {
                let v = op["v"].as_u64().unwrap();
                match OgreArc::new_with(|slot: &mut Tracked| unsafe { std::ptr::write(slot, Tracked::mk(v)) }, self.alloc) {
                    Some(a) => {
                        self.put(&s("to"), Handle::Shared(a), v);
                        json!({"ok": true, "v": v})
                    }
                    None => json!({"ok": false, "v": v}),
                }
            }
            "new2" => {
                let v = op["v"].as_u64().unwrap();
                match OgreArc::new_with_clones::<2, _>(|slot: &mut Tracked| unsafe { std::ptr::write(slot, Tracked::mk(v)) }, self.alloc) {
                    Some(arr) => {
                        let mut it = arr.into_iter();
                        self.put(&s("to"), Handle::Shared(it.next().unwrap()), v);
                        self.put(&s("to2"), Handle::Shared(it.next().unwrap()), v);
                        json!({"ok": true, "v": v})
                    }
                    None => json!({"ok": false, "v": v}),
                }
            }
            "newu" => {
                let v = op["v"].as_u64().unwrap();
                match OgreUnique::new(|slot: &mut Tracked| unsafe { std::ptr::write(slot, Tracked::mk(v)) }, self.alloc) {
                    Some(u) => {
                        self.put(&s("to"), Handle::Unique(u), v);
                        json!({"ok": true, "v": v})
                    }
                    None => json!({"ok": false, "v": v}),
                }
            }
            "clone" => {
                // the source handle stays where it is while it is being cloned (it is owned by the calling thread's script)
                let (h, v) = self.share(&s("from")).expect("clone: no such handle");
                let c = match &*h {
                    Handle::Shared(a) => Handle::Shared(a.clone()),
                    Handle::Unique(_) => panic!("clone of a unique handle"),
                };
                drop(h);
                self.put(&s("to"), c, v);
                json!({"ok": true, "v": v})
            }
            "incr" => {
                let (h, v) = self.share(&s("from")).expect("incr: no such handle");
                let tos: Vec<String> = op["tos"].as_array().unwrap().iter().map(|x| x.as_str().unwrap().to_string()).collect();
                let mut copies = vec![];
                if let Handle::Shared(a) = &*h {
                    unsafe { a.increment_references(tos.len() as u32) };
                    for _ in 0..tos.len() {
                        copies.push(unsafe { a.raw_copy() });
                    }
                }
                drop(h);
                for (t, c) in tos.iter().zip(copies) {
                    self.put(t, Handle::Shared(c), v);
                }
                json!({"ok": true, "v": v})
            }
            "drop" => {
                let (h, v) = self.take(&s("h")).expect("drop: no such handle");
                drop(h);
                json!({"ok": true, "v": v, "destroyed": drops_of(v) >= 1, "dcount": drops_of(v)})
            }
            "deref" => {
                let (h, v) = self.share(&s("h")).expect("deref: no such handle");
                let got = match &*h {
                    Handle::Shared(a) => Pay::v(&**a),
                    Handle::Unique(u) => Pay::v(&**u),
                };
                drop(h);
                json!({"ok": true, "v": got, "expected": v})
            }
            "refs" => {
                let (h, _v) = self.share(&s("h")).expect("refs: no such handle");
                let n = match &*h {
                    Handle::Shared(a) => a.references_count(),
                    Handle::Unique(_) => 1,
                };
                drop(h);
                json!({"ok": true, "v": n})
            }
            "into_arc" => {
                let (h, v) = self.take(&s("h")).expect("into_arc: no such handle");
                let a = match h {
                    Handle::Unique(u) => Handle::Shared(u.into_ogre_arc()),
                    other => other,
                };
                self.put(&s("h"), a, v);
                json!({"ok": true, "v": v, "destroyed": drops_of(v) >= 1})
            }
            other => panic!("handles: unknown op {other}"),
        }
    }
}

impl Sut for HandleSut {
    fn prelude(&self) -> Vec<(Value, Value)> {
        self.pre.lock().unwrap().clone()
    }

    fn exec(&self, _ctx: &Ctx, op: &Value) -> Value {
        self.run(op)
    }

    fn finish(&self, _stalled: bool) -> Value {
        let live: Vec<String> = {
            let mut v: Vec<String> = self.names.lock().unwrap().keys().cloned().collect();
            v.sort();
            v
        };
        let live_values: std::collections::HashSet<u64> = self.names.lock().unwrap().values().map(|x| x.1).collect();
        let drops = drops_snapshot();
        // how many slots the pool can still hand out
        let mut got = vec![];
        while let Some((_r, id)) = self.alloc.alloc_ref() {
            got.push(id);
            if got.len() > 2 * N {
                break;
            }
        }
        let free = got.len();
        for id in got {
            // give them back without running a destructor on never-initialised bytes: Tracked ignores those
            self.alloc.dealloc_id(id);
        }
        json!({"hard": false, "live": live, "live_values": live_values.len(), "free": free, "pool": N, "drops": drops, "anomalies": anomalies_snapshot()})
    }

    fn after_finish(&self, _obs: &mut Value, hard: bool) {
        let all: Vec<_> = self.names.lock().unwrap().drain().collect();
        if hard {
            std::mem::forget(all);
        } else {
            drop(all);
        }
    }
}
