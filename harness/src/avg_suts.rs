//! The incremental-average metric (C19), reached through `StreamExecutor::ok_events_avg_future_duration`
//! (its module is private): threads record measurements while others probe.

use crate::sched::Ctx;
use crate::Sut;
use reactive_mutiny::stream_executor::StreamExecutor;
use serde_json::{json, Value};
use std::sync::Arc;

pub struct AvgSut {
    ex: Arc<StreamExecutor<0>>,
    /// the measurements each thread records, in its program order
    per_thread: Vec<Vec<f32>>,
}

pub fn make(kind: &str, scn: &Value) -> Option<Arc<dyn Sut>> {
    if kind != "inc_avg" {
        return None;
    }
    let per_thread = scn["threads"]
        .as_array()
        .unwrap()
        .iter()
        .map(|t| t["ops"].as_array().unwrap().iter().filter(|o| o["op"] == "inc").map(|o| o["m"].as_f64().unwrap() as f32).collect())
        .collect();
    Some(Arc::new(AvgSut { ex: StreamExecutor::<0>::new("avg"), per_thread }))
}

/// the library's own update formula (same operations, same f32 arithmetic)
fn fold(counter: u32, average: f32, m: f32) -> (u32, f32) {
    (counter + 1, ((counter as f32 / (1.0 + counter as f32)) * average) + (m / (1.0 + counter as f32)))
}

impl AvgSut {
    /// is (cnt, avg) the pair produced by folding *some* interleaving of per-thread prefixes totalling `cnt` measurements?
    fn consistent(&self, cnt: u32, avg: f32) -> bool {
        fn rec(s: &AvgSut, taken: &mut Vec<usize>, c: u32, a: f32, cnt: u32, avg: f32) -> bool {
            if c == cnt {
                return a.to_bits() == avg.to_bits();
            }
            for t in 0..s.per_thread.len() {
                if taken[t] < s.per_thread[t].len() {
                    let m = s.per_thread[t][taken[t]];
                    taken[t] += 1;
                    let (c2, a2) = fold(c, a, m);
                    let ok = rec(s, taken, c2, a2, cnt, avg);
                    taken[t] -= 1;
                    if ok {
                        return true;
                    }
                }
            }
            false
        }
        let mut taken = vec![0; self.per_thread.len()];
        rec(self, &mut taken, 0, 0.0, cnt, avg)
    }
}

impl Sut for AvgSut {
    fn exec(&self, _ctx: &Ctx, op: &Value) -> Value {
        match op["op"].as_str().unwrap() {
            "inc" => {
                self.ex.ok_events_avg_future_duration.inc(op["m"].as_f64().unwrap() as f32);
                json!({"ok": true, "v": 0})
            }
            "probe" => {
                let (c, a) = self.ex.ok_events_avg_future_duration.probe();
                json!({"ok": true, "v": c, "consistent": self.consistent(c, a)})
            }
            "nop" => json!({"ok": true, "v": 0}),
            other => panic!("inc_avg: unknown op {other}"),
        }
    }

    fn finish(&self, _stalled: bool) -> Value {
        let (c, a) = self.ex.ok_events_avg_future_duration.probe();
        let all: Vec<f64> = self.per_thread.iter().flatten().map(|x| *x as f64).collect();
        let mean = if all.is_empty() { 0.0 } else { all.iter().sum::<f64>() / all.len() as f64 };
        let tol = 1e-3 * mean.abs().max(1.0);
        json!({"hard": false, "count": c, "expected": all.len(), "consistent": self.consistent(c, a), "mean_ok": c as usize != all.len() || (a as f64 - mean).abs() <= tol})
    }
}
