//! Free-running driver (real concurrency on all cores, hooks inactive): threads hammer a container in
//! rounds; every call and return is stamped from one global counter (sound real-time order); the merged
//! history is written in the trace format and judged by the L1 monitor (TLC, Trace_LinQueue).

use crate::cont_suts::{make_cont, Cont};
use crate::sched::Xorshift;
use serde_json::{json, Value};
use std::io::Write;
use std::sync::atomic::{AtomicU64, Ordering::SeqCst};
use std::sync::{Arc, Barrier};

struct Rec {
    stamp: u64,
    ret: bool,
    t: usize,
    op: &'static str,
    v: u32,
    ok: bool,
}

fn one_run(c: Arc<dyn Cont>, threads: usize, rounds: usize, ops: usize, seed: u64, put_bias: u64) -> Vec<Rec> {
    let clock = Arc::new(AtomicU64::new(1));
    let barrier = Arc::new(Barrier::new(threads));
    let mut hs = vec![];
    for t in 0..threads {
        let c = Arc::clone(&c);
        let clock = Arc::clone(&clock);
        let barrier = Arc::clone(&barrier);
        hs.push(std::thread::spawn(move || {
            let mut rng = Xorshift(seed.wrapping_mul(0x9E3779B97F4A7C15).wrapping_add(t as u64 * 7919 + 1) | 1);
            rng.next();
            let mut recs: Vec<Rec> = Vec::with_capacity(rounds * ops * 2);
            let mut serial = 0u32;
            for _r in 0..rounds {
                barrier.wait();
                for _ in 0..ops {
                    if rng.next() % 100 < put_bias {
                        serial += 1;
                        let v = (t as u32 + 1) * 100_000 + serial;
                        let s0 = clock.fetch_add(1, SeqCst);
                        let ok = c.put(v);
                        let s1 = clock.fetch_add(1, SeqCst);
                        recs.push(Rec { stamp: s0, ret: false, t, op: "enq", v, ok: true });
                        recs.push(Rec { stamp: s1, ret: true, t, op: "enq", v: 0, ok });
                    } else {
                        let s0 = clock.fetch_add(1, SeqCst);
                        let r = c.take();
                        let s1 = clock.fetch_add(1, SeqCst);
                        recs.push(Rec { stamp: s0, ret: false, t, op: "deq", v: 0, ok: true });
                        recs.push(Rec { stamp: s1, ret: true, t, op: "deq", v: r.unwrap_or(0), ok: r.is_some() });
                    }
                }
                barrier.wait();
            }
            recs
        }));
    }
    let mut all: Vec<Rec> = vec![];
    for h in hs {
        all.extend(h.join().unwrap());
    }
    all.sort_by_key(|r| r.stamp);
    all
}

pub fn main(spec_path: &str, out_path: &str) {
    let spec: Value = serde_json::from_str(&std::fs::read_to_string(spec_path).expect("spec")).expect("spec json");
    let mut out = std::io::BufWriter::new(std::fs::File::create(out_path).expect("out"));
    let mut meta = std::io::BufWriter::new(std::fs::File::create(format!("{out_path}.runs")).expect("runs"));
    let mut line = 0u64;
    for (ci, case) in spec["cases"].as_array().expect("cases").iter().enumerate() {
        let kind = case["sut"].as_str().unwrap();
        let n = case["n"].as_u64().unwrap_or(2);
        let threads = case["threads"].as_u64().unwrap_or(4) as usize;
        let rounds = case["rounds"].as_u64().unwrap_or(50) as usize;
        let ops = case["ops"].as_u64().unwrap_or(2) as usize;
        let runs = case["runs"].as_u64().unwrap_or(1);
        let seed = case["seed"].as_u64().unwrap_or(1);
        let bias = case["put_bias"].as_u64().unwrap_or(50);
        let id = case["id"].as_str().map(|s| s.to_string()).unwrap_or(format!("free{ci}"));
        for run in 1..=runs {
            let c = make_cont(kind, n).unwrap_or_else(|| panic!("unknown container {kind}/{n}"));
            let recs = one_run(Arc::clone(&c), threads, rounds, ops, seed * 1000 + run, bias);
            writeln!(meta, "{}", json!({"scn": id, "run": run, "line": line + 1, "outcome": "complete", "choices": [], "finals": [], "diverged": -1, "final": Value::Null})).unwrap();
            writeln!(out, "{}", json!({"k":"reset","t":-1,"fn":"","fld":"","o":"","a":0,"b":0,"r":0,"ok":true,"obj":0,"x":{"scn": id, "run": run, "origin": 0, "outcome": "complete"}})).unwrap();
            line += 1;
            for r in recs.iter() {
                let ev = if r.ret {
                    json!({"k":"ret","t":r.t,"fn":r.op,"fld":"","o":"","a":0,"b":0,"r":0,"ok":true,"obj":0,"x":{"ok": r.ok, "v": r.v}})
                } else {
                    json!({"k":"call","t":r.t,"fn":r.op,"fld":"","o":"","a":0,"b":0,"r":0,"ok":true,"obj":0,"x":{"op": r.op, "v": r.v, "i": 0}})
                };
                writeln!(out, "{}", ev).unwrap();
                line += 1;
            }
            let len = c.len();
            let mut drained = vec![];
            while let Some(v) = c.take() {
                drained.push(v);
                if drained.len() > 64 {
                    break;
                }
            }
            if kind.starts_with("stack") {
                drained.reverse();
            }
            writeln!(out, "{}", json!({"k":"final","t":-1,"fn":"","fld":"","o":"","a":0,"b":0,"r":0,"ok":true,"obj":0,"x":{"hard": false, "len": len, "drained": drained}})).unwrap();
            line += 1;
        }
    }
    out.flush().unwrap();
    meta.flush().unwrap();
}
