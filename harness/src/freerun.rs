//! Free-running (real concurrency, 16 cores) driver -- filled in later
pub fn main(_spec: &str, _out: &str) {
    eprintln!("free-running driver: not built yet");
    std::process::exit(2);
}
