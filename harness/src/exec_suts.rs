//! tokio-driven drivers for the stream executors and for `Uni` / `Multi` life cycles (C06, C11, C12).
//!
//! usage: rm-verif-harness exec <cases.ndjson> <trace-out.ndjson>
//! Every case runs on its own runtime (current-thread with paused clock -- deterministic, virtual time -- or multi-thread);
//! item futures wait on gates owned by this driver, so "in flight" lasts until the driver says otherwise and nothing depends on timing.

use crate::chan_suts::Held;
use futures::stream::{self, StreamExt};
use reactive_mutiny::prelude::advanced::*;
use reactive_mutiny::stream_executor::{StreamExecutor, StreamExecutorStats};
use reactive_mutiny::uni::GenericUni;
use serde_json::{json, Value};
use std::collections::HashMap;
use std::future::Future;
use std::io::Write;
use std::sync::atomic::{AtomicI64, AtomicU64, Ordering::SeqCst};
use std::sync::{Arc, Mutex};
use std::time::Duration;
use tokio::sync::Semaphore;

type BoxErr = Box<dyn std::error::Error + Send + Sync>;

#[derive(Clone)]
pub struct Log {
    ev: Arc<Mutex<Vec<Value>>>,
    inflight: Arc<AtomicI64>,
    max_inflight: Arc<AtomicI64>,
    seq: Arc<AtomicU64>,
}

impl Log {
    fn new() -> Self {
        Log { ev: Arc::new(Mutex::new(vec![])), inflight: Arc::new(AtomicI64::new(0)), max_inflight: Arc::new(AtomicI64::new(0)), seq: Arc::new(AtomicU64::new(0)) }
    }
    fn push(&self, k: &str, a: u64, b: u64, x: Value) {
        self.seq.fetch_add(1, SeqCst);
        self.ev.lock().unwrap().push(json!({"k": k, "t": 0, "fn": "", "fld": "", "o": "", "a": a, "b": b, "r": 0, "ok": true, "obj": 0, "x": x}));
    }
    fn enter(&self) {
        let n = self.inflight.fetch_add(1, SeqCst) + 1;
        self.max_inflight.fetch_max(n, SeqCst);
    }
    fn leave(&self) {
        self.inflight.fetch_sub(1, SeqCst);
    }
}

/// logs the cancellation of an item future that is dropped before it completed
struct Guard {
    log: Log,
    i: u64,
    ex: u64,
    done: bool,
}
impl Drop for Guard {
    fn drop(&mut self) {
        if !self.done {
            self.log.leave();
            self.log.push("xcancel", self.i, self.ex, json!({}));
        }
    }
}

#[derive(Debug)]
struct ItemErr(u64);
impl std::fmt::Display for ItemErr {
    fn fmt(&self, f: &mut std::fmt::Formatter<'_>) -> std::fmt::Result {
        write!(f, "item-{}", self.0)
    }
}
impl std::error::Error for ItemErr {}

fn err_index(e: &BoxErr) -> u64 {
    e.to_string().trim_start_matches("item-").parse().unwrap_or(9999)
}

/// the future an item of a futures pipeline is: start, wait for the gate (or for ever, if `never`), end
async fn item_future(log: Log, i: u64, ex: u64, gate: Arc<Semaphore>, never: bool, fails: bool) -> Result<u64, BoxErr> {
    log.enter();
    log.push("xstart", i, ex, json!({}));
    let mut g = Guard { log: log.clone(), i, ex, done: false };
    if never {
        futures::future::pending::<()>().await;
    } else {
        gate.acquire().await.unwrap().forget();
    }
    g.done = true;
    log.leave();
    log.push("xend", i, ex, json!({"out": if fails { "err" } else { "ok" }}));
    if fails {
        Err(Box::new(ItemErr(i)))
    } else {
        Ok(i)
    }
}

fn close_event(log: &Log, ex: u64, stats: &Arc<dyn StreamExecutorStats + Send + Sync>) {
    let (ok, _) = stats.ok_events_avg_future_duration().probe();
    let (failed, _) = stats.failed_events_avg_future_duration().probe();
    let (timedout, _) = stats.timed_out_events_avg_future_duration().probe();
    let status = format!("{:?}", stats.executor_status().load(std::sync::atomic::Ordering::Relaxed));
    let (s, f) = (stats.execution_start_delta_nanos(), stats.execution_finish_delta_nanos());
    log.push("xclose", ex, 0, json!({"ok": ok, "failed": failed, "timedout": timedout, "status": status, "finish_ge_start": f >= s && s != u64::MAX && f != u64::MAX}));
}

struct Case {
    kind: String,
    timeout: bool,
    limit: u32,
    items: Vec<String>,
    release: Vec<usize>,
    multi_rt: bool,
}

fn is_slow(k: &str) -> bool {
    k == "slow" || k == "slowerr"
}
fn is_err(k: &str) -> bool {
    k == "err" || k == "slowerr"
}

fn tick(multi_rt: bool) -> Duration {
    if multi_rt {
        Duration::from_millis(2)
    } else {
        Duration::from_millis(10)
    }
}
fn fut_timeout(multi_rt: bool) -> Duration {
    if multi_rt {
        Duration::from_millis(150)
    } else {
        Duration::from_secs(1)
    }
}

// ---------------------------------------------------------------------------------------------
// (A) a StreamExecutor fed from a fixed item sequence

async fn run_exec<const I: usize>(case: &Case, log: Log) {
    let n = case.items.len();
    let gates: Vec<Arc<Semaphore>> = (0..n).map(|_| Arc::new(Semaphore::new(0))).collect();
    let timeout = if case.timeout { fut_timeout(case.multi_rt) } else { Duration::ZERO };
    let ex = StreamExecutor::<I>::with_futures_timeout("exec", timeout);
    let (tx, rx) = tokio::sync::oneshot::channel::<()>();
    let tx = Arc::new(Mutex::new(Some(tx)));
    let log_c = log.clone();
    let on_close = move |stats: Arc<dyn StreamExecutorStats + Send + Sync>| {
        let tx = Arc::clone(&tx);
        async move {
            close_event(&log_c, 0, &stats);
            if let Some(tx) = tx.lock().unwrap().take() {
                let _ = tx.send(());
            }
        }
    };
    let log_e = log.clone();
    let items = case.items.clone();
    let with_timeout = case.timeout;
    match case.kind.as_str() {
        "fut_fallible" => {
            let l = log.clone();
            let g = gates.clone();
            let st = stream::iter(items.into_iter().enumerate()).map(move |(i, k)| item_future(l.clone(), i as u64, 0, g[i].clone(), with_timeout && is_slow(&k), is_err(&k)));
            let on_err = move |e: BoxErr| {
                let log_e = log_e.clone();
                async move { log_e.push("xerr", err_index(&e), 0, json!({})) }
            };
            ex.spawn_executor(case.limit, on_err, on_close, st);
        }
        "fut" => {
            let l = log.clone();
            let g = gates.clone();
            let st = stream::iter(items.into_iter().enumerate()).map(move |(i, k)| {
                let f = item_future(l.clone(), i as u64, 0, g[i].clone(), with_timeout && is_slow(&k), false);
                async move { f.await.unwrap_or(0) }
            });
            ex.spawn_futures_executor(case.limit, on_close, st);
        }
        "fallible" => {
            let l = log.clone();
            let st = stream::iter(items.into_iter().enumerate()).map(move |(i, k)| {
                l.push("xstart", i as u64, 0, json!({}));
                l.push("xend", i as u64, 0, json!({"out": if is_err(&k) { "err" } else { "ok" }}));
                if is_err(&k) {
                    Err(Box::new(ItemErr(i as u64)) as BoxErr)
                } else {
                    Ok(i as u64)
                }
            });
            let on_err = move |e: BoxErr| log_e.push("xerr", err_index(&e), 0, json!({}));
            ex.spawn_fallibles_executor(case.limit, on_err, on_close, st);
        }
        "nonfut_fallible" => {
            let l = log.clone();
            let st = stream::iter(items.into_iter().enumerate()).map(move |(i, k)| {
                l.push("xstart", i as u64, 0, json!({}));
                l.push("xend", i as u64, 0, json!({"out": if is_err(&k) { "err" } else { "ok" }}));
                if is_err(&k) {
                    Err(Box::new(ItemErr(i as u64)) as BoxErr)
                } else {
                    Ok(i as u64)
                }
            });
            ex.spawn_non_futures_executor(case.limit, on_close, st);
        }
        _ => {
            let l = log.clone();
            let st = stream::iter(items.into_iter().enumerate()).map(move |(i, _k)| {
                l.push("xstart", i as u64, 0, json!({}));
                l.push("xend", i as u64, 0, json!({"out": "ok"}));
                i as u64
            });
            ex.spawn_non_futures_non_fallibles_executor(case.limit, on_close, st);
        }
    }
    for &i in case.release.iter() {
        tokio::time::sleep(tick(case.multi_rt)).await;
        if i < n {
            gates[i].add_permits(1);
        }
    }
    let waited = tokio::time::timeout(if case.multi_rt { Duration::from_secs(5) } else { Duration::from_secs(120) }, rx).await;
    if waited.is_err() {
        log.push("xnoclose", 0, 0, json!({}));
    }
    // a second (illegal) close callback or a late item would show up here
    tokio::time::sleep(tick(case.multi_rt) * 5).await;
}

// ---------------------------------------------------------------------------------------------
// (B) a Uni over a real channel: events, gated pipelines, graceful close

struct UniCase {
    exec: String,
    timeout: bool,
    limit: u32,
    events: Vec<u64>,
    slow: Vec<u64>,
    fails: Vec<u64>,
    multi_rt: bool,
    close: bool,
    /// events whose gates open before close is called: their streams are idle again when the close starts
    pre_release: Vec<u64>,
}

async fn run_uni<U>(case: &UniCase, log: Log)
where
    U: GenericUni<ItemType = u64> + Send + Sync + 'static,
    U::DerivedItemType: Held + Send + Sync,
{
    let mut gates: HashMap<u64, Arc<Semaphore>> = case.events.iter().map(|v| (*v, Arc::new(Semaphore::new(0)))).collect();
    gates.insert(7_777, Arc::new(Semaphore::new(1)));   // the event sent after the close: not gated (and never to be delivered)
    let gates = Arc::new(gates);
    let timeout = if case.timeout { fut_timeout(case.multi_rt) } else { Duration::ZERO };
    let log_c = log.clone();
    let on_close = move |stats: Arc<dyn StreamExecutorStats + Send + Sync>| {
        let log_c = log_c.clone();
        async move {
            close_event(&log_c, 0, &stats);
            log_c.push("xuniclose", 0, 0, json!({}));
        }
    };
    let log_e = log.clone();
    let slow = Arc::new(case.slow.clone());
    let fails = Arc::new(case.fails.clone());
    let with_timeout = case.timeout;
    let uni = U::new("uni");
    let uni: Arc<U> = match case.exec.as_str() {
        "fut_fallible" => {
            let (l, g, sl, fl) = (log.clone(), Arc::clone(&gates), Arc::clone(&slow), Arc::clone(&fails));
            let on_err = move |e: BoxErr| {
                let log_e = log_e.clone();
                async move { log_e.push("xerr", err_index(&e), 0, json!({})) }
            };
            uni.spawn_executors(case.limit, timeout, move |st| {
                let (l, g, sl, fl) = (l.clone(), Arc::clone(&g), Arc::clone(&sl), Arc::clone(&fl));
                st.map(move |ev| {
                    let v = ev.val();
                    drop(ev);
                    item_future(l.clone(), v, 0, g[&v].clone(), with_timeout && sl.contains(&v), fl.contains(&v))
                })
            }, on_err, on_close)
        }
        "fut" => {
            let (l, g, sl) = (log.clone(), Arc::clone(&gates), Arc::clone(&slow));
            uni.spawn_futures_executors(case.limit, timeout, move |st| {
                let (l, g, sl) = (l.clone(), Arc::clone(&g), Arc::clone(&sl));
                st.map(move |ev| {
                    let v = ev.val();
                    drop(ev);
                    let f = item_future(l.clone(), v, 0, g[&v].clone(), with_timeout && sl.contains(&v), false);
                    async move { f.await.unwrap_or(0) }
                })
            }, on_close)
        }
        "fallible" => {
            let (l, fl) = (log.clone(), Arc::clone(&fails));
            let on_err = move |e: BoxErr| log_e.push("xerr", err_index(&e), 0, json!({}));
            uni.spawn_fallibles_executors(case.limit, move |st| {
                let (l, fl) = (l.clone(), Arc::clone(&fl));
                st.map(move |ev| {
                    let v = ev.val();
                    l.push("xstart", v, 0, json!({}));
                    l.push("xend", v, 0, json!({"out": if fl.contains(&v) { "err" } else { "ok" }}));
                    if fl.contains(&v) {
                        Err(Box::new(ItemErr(v)) as BoxErr)
                    } else {
                        Ok(v)
                    }
                })
            }, on_err, on_close)
        }
        _ => {
            let l = log.clone();
            uni.spawn_non_futures_non_fallibles_executors(case.limit, move |st| {
                let l = l.clone();
                st.map(move |ev| {
                    let v = ev.val();
                    l.push("xstart", v, 0, json!({}));
                    l.push("xend", v, 0, json!({"out": "ok"}));
                    v
                })
            }, on_close)
        }
    };
    let t = tick(case.multi_rt);
    for v in case.events.iter() {
        let ok = matches!(uni.send(*v), keen_retry::RetryResult::Ok { .. });
        log.push("xsend", *v, 0, json!({"ok": ok}));
        tokio::time::sleep(t).await;
    }
    // let the executors pull what their concurrency limits allow
    tokio::time::sleep(t * 10).await;
    for v in case.pre_release.iter() {
        if let Some(g) = gates.get(v) {
            g.add_permits(1);
        }
    }
    if !case.pre_release.is_empty() {
        tokio::time::sleep(t * 10).await;
    }
    if case.close {
        let (u2, l2) = (Arc::clone(&uni), log.clone());
        let closer = tokio::spawn(async move {
            l2.push("xclosecall", 0, 0, json!({}));
            let r = u2.close(Duration::ZERO).await;
            l2.push("xcloseret", 0, 0, json!({"r": r, "pending": u2.pending_items_count()}));
        });
        // plenty of (virtual) time for a close that does not wait
        tokio::time::sleep(if case.multi_rt { Duration::from_millis(300) } else { Duration::from_secs(10) }).await;
        for v in case.events.iter() {
            if !(with_timeout && case.slow.contains(v)) && !case.pre_release.contains(v) {
                gates[v].add_permits(1);
                tokio::time::sleep(t).await;
            }
        }
        if tokio::time::timeout(if case.multi_rt { Duration::from_secs(5) } else { Duration::from_secs(300) }, closer).await.is_err() {
            log.push("xnocloseret", 0, 0, json!({}));
        }
        tokio::time::sleep(t * 20).await;
        // afterwards: no stream left, not open; a later send must not be delivered to anybody
        let _ = uni.send(7_777);
        tokio::time::sleep(t * 5).await;
    } else {
        for v in case.events.iter() {
            gates[v].add_permits(1);
            tokio::time::sleep(t).await;
        }
        tokio::time::sleep(t * 10).await;
    }
}

macro_rules! uni_by_chan {
    ($chan: expr, $s: expr, $case: expr, $log: expr) => {
        match ($chan, $s) {
            ("move_atomic", 1) => run_uni::<UniMoveAtomic<u64, 4, 1, 7>>($case, $log).await,
            ("move_atomic", 2) => run_uni::<UniMoveAtomic<u64, 4, 2, 7>>($case, $log).await,
            ("move_fullsync", 1) => run_uni::<UniMoveFullSync<u64, 4, 1, 7>>($case, $log).await,
            ("move_fullsync", 2) => run_uni::<UniMoveFullSync<u64, 4, 2, 7>>($case, $log).await,
            ("move_crossbeam", 1) => run_uni::<UniMoveCrossbeam<u64, 4, 1, 7>>($case, $log).await,
            ("move_crossbeam", 2) => run_uni::<UniMoveCrossbeam<u64, 4, 2, 7>>($case, $log).await,
            ("zc_atomic", 1) => run_uni::<UniZeroCopyAtomic<u64, 4, 1, 7>>($case, $log).await,
            ("zc_atomic", 2) => run_uni::<UniZeroCopyAtomic<u64, 4, 2, 7>>($case, $log).await,
            ("zc_fullsync", 1) => run_uni::<UniZeroCopyFullSync<u64, 4, 1, 0>>($case, $log).await,
            ("zc_fullsync", 2) => run_uni::<UniZeroCopyFullSync<u64, 4, 2, 0>>($case, $log).await,
            other => panic!("unknown uni channel {:?}", other),
        }
    };
}

// ---------------------------------------------------------------------------------------------

fn strs(v: &Value) -> Vec<String> {
    v.as_array().map(|a| a.iter().map(|x| x.as_str().unwrap_or("").to_string()).collect()).unwrap_or_default()
}
fn nums(v: &Value) -> Vec<u64> {
    v.as_array().map(|a| a.iter().map(|x| x.as_u64().unwrap_or(0)).collect()).unwrap_or_default()
}

fn run_case(c: &Value) -> (Vec<Value>, Value) {
    let log = Log::new();
    let multi_rt = c["runtime"].as_str().unwrap_or("current") == "multi";
    let rt = if multi_rt {
        tokio::runtime::Builder::new_multi_thread().worker_threads(4).enable_time().build().unwrap()
    } else {
        tokio::runtime::Builder::new_current_thread().enable_time().start_paused(true).build().unwrap()
    };
    let fam = c["fam"].as_str().unwrap_or("exec").to_string();
    let l2 = log.clone();
    let c2 = c.clone();
    let res = std::panic::catch_unwind(std::panic::AssertUnwindSafe(|| {
        rt.block_on(async move {
            match fam.as_str() {
                "exec" => {
                    let case = Case {
                        kind: c2["kind"].as_str().unwrap().to_string(),
                        timeout: c2["timeout"].as_bool().unwrap_or(false),
                        limit: c2["limit"].as_u64().unwrap_or(1) as u32,
                        items: strs(&c2["items"]),
                        release: nums(&c2["release"]).into_iter().map(|x| x as usize).collect(),
                        multi_rt,
                    };
                    match c2["instr"].as_u64().unwrap_or(7) {
                        0 => run_exec::<0>(&case, l2).await,
                        32 => run_exec::<32>(&case, l2).await,
                        103 => run_exec::<103>(&case, l2).await,
                        11 => run_exec::<11>(&case, l2).await,      // ExpensiveMetricsWithoutLogs
                        107 => run_exec::<107>(&case, l2).await,    // LogsWithExpensiveMetrics
                        _ => run_exec::<7>(&case, l2).await,
                    }
                }
                "uni" => {
                    let case = UniCase {
                        exec: c2["kind"].as_str().unwrap().to_string(),
                        timeout: c2["timeout"].as_bool().unwrap_or(false),
                        limit: c2["limit"].as_u64().unwrap_or(1) as u32,
                        events: nums(&c2["events"]),
                        slow: nums(&c2["slow"]),
                        fails: nums(&c2["fails"]),
                        multi_rt,
                        close: c2["close"].as_bool().unwrap_or(true),
                        pre_release: nums(&c2["pre_release"]),
                    };
                    let chan = c2["chan"].as_str().unwrap().to_string();
                    let s = c2["s"].as_u64().unwrap_or(1);
                    uni_by_chan!(chan.as_str(), s, &case, l2)
                }
                "multi" => crate::exec_multi::run(&c2, l2, multi_rt).await,
                other => panic!("unknown family {other}"),
            }
        })
    }));
    if res.is_err() {
        log.push("panic", 0, 0, json!("driver or code under test panicked"));
    }
    drop(rt);
    let evs = log.ev.lock().unwrap().clone();
    let fin = json!({"hard": false, "max_inflight": log.max_inflight.load(SeqCst), "inflight_end": log.inflight.load(SeqCst)});
    (evs, fin)
}

pub fn log_push(log: &Log, k: &str, a: u64, b: u64, x: Value) {
    log.push(k, a, b, x)
}
pub fn log_close(log: &Log, ex: u64, stats: &Arc<dyn StreamExecutorStats + Send + Sync>) {
    close_event(log, ex, stats)
}
pub fn mk_item(log: Log, i: u64, ex: u64, gate: Arc<Semaphore>, never: bool, fails: bool) -> impl Future<Output = Result<u64, BoxErr>> {
    item_future(log, i, ex, gate, never, fails)
}
pub fn err_idx(e: &BoxErr) -> u64 {
    err_index(e)
}

pub fn main(cases_path: &str, out_path: &str) {
    let input = std::fs::read_to_string(cases_path).expect("cases file");
    let mut out = std::io::BufWriter::new(std::fs::File::create(out_path).expect("out"));
    let mut meta = std::io::BufWriter::new(std::fs::File::create(format!("{out_path}.runs")).expect("runs"));
    let mut line = 0u64;
    for (n, l) in input.lines().enumerate() {
        if l.trim().is_empty() {
            continue;
        }
        let c: Value = serde_json::from_str(l).expect("case json");
        let id = c["id"].as_str().map(|s| s.to_string()).unwrap_or(format!("case{n}"));
        let (evs, fin) = run_case(&c);
        writeln!(meta, "{}", json!({"scn": id, "run": 1, "line": line + 1, "outcome": "complete", "choices": [], "finals": [], "diverged": -1, "final": fin})).unwrap();
        let mut x = c.clone();
        if let Some(o) = x.as_object_mut() {
            o.insert("scn".into(), json!(id));
            o.insert("run".into(), json!(1));
            o.insert("origin".into(), json!(0));
            o.insert("outcome".into(), json!("complete"));
        }
        writeln!(out, "{}", json!({"k":"reset","t":-1,"fn":"","fld":"","o":"","a":0,"b":0,"r":0,"ok":true,"obj":0,"x":x})).unwrap();
        line += 1;
        for e in evs.iter() {
            writeln!(out, "{}", e).unwrap();
            line += 1;
        }
        writeln!(out, "{}", json!({"k":"final","t":-1,"fn":"","fld":"","o":"","a":0,"b":0,"r":0,"ok":true,"obj":0,"x":fin})).unwrap();
        line += 1;
    }
    out.flush().unwrap();
    meta.flush().unwrap();
}
