//! tokio-driven executor / Uni / Multi drivers -- filled in later
pub fn main(_cases: &str, _out: &str) {
    eprintln!("executor driver: not built yet");
    std::process::exit(2);
}
