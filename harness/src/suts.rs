//! Systems under test: thin adapters from scenario operations (JSON) to the real crate's API.

use crate::sched::Ctx;
use crate::Sut;
use reactive_mutiny::ogre_std::ogre_queues::{
    atomic::atomic_move::AtomicMove,
    full_sync::full_sync_move::FullSyncMove,
    meta_container::MoveContainer,
    meta_publisher::MovePublisher,
    meta_subscriber::MoveSubscriber,
};
use reactive_mutiny::prelude::advanced::*;
use serde_json::{json, Value};
use std::sync::{Arc, Mutex};

macro_rules! by_n {
    ($n: expr, $mk: ident $(, $arg: expr)*) => {
        match $n {
            2 => $mk::<2>($($arg),*),
            4 => $mk::<4>($($arg),*),
            8 => $mk::<8>($($arg),*),
            16 => $mk::<16>($($arg),*),
            other => panic!("unsupported N={other}"),
        }
    };
}
#[allow(unused_imports)]
pub(crate) use by_n;

pub fn make_sut(scn: &Value) -> Arc<dyn Sut> {
    let kind = scn["sut"].as_str().expect("sut");
    let n = scn["n"].as_u64().unwrap_or(2);
    match kind {
        "ring_atomic" => by_n!(n, mk_ring_atomic),
        "ring_fullsync" => by_n!(n, mk_ring_fullsync),
        "pool_atomic" => by_n!(n, mk_pool_atomic),
        "pool_fullsync" => by_n!(n, mk_pool_fullsync),
        "pool_atomic_tracked" => by_n!(n, mk_tpool_atomic),
        "pool_fullsync_tracked" => by_n!(n, mk_tpool_fullsync),
        other => {
            if let Some(s) = crate::cont_suts::make(kind, scn) {
                s
            } else if let Some(s) = crate::avg_suts::make(kind, scn) {
                s
            } else if let Some(s) = crate::handle_suts::make(kind, scn) {
                s
            } else if let Some(s) = crate::chan_suts::make(kind, scn) {
                s
            } else {
                panic!("unknown sut {other}")
            }
        }
    }
}

// ---------------------------------------------------------------------------------------------
// raw rings

/// per logical thread, the slots it has reserved and not yet published / cancelled
type Reserved = Mutex<Vec<Vec<(usize /*ptr*/, u32 /*value written*/)>>>;

pub struct RingAtomicSut<const N: usize> {
    q: AtomicMove<u32, N>,
    reserved: Reserved,
}

fn mk_ring_atomic<const N: usize>() -> Arc<dyn Sut> {
    Arc::new(RingAtomicSut::<N> { q: AtomicMove::new(), reserved: Mutex::new(vec![vec![]; 16]) })
}

impl<const N: usize> Sut for RingAtomicSut<N> {
    fn resolve(&self, t: usize, op: &Value) -> Value {
        // ops that refer to "my oldest / newest reservation" are bound to an index here (a no-op if there is none)
        let name = op["op"].as_str().unwrap_or("");
        let r = self.reserved.lock().unwrap();
        let mine = &r[t];
        match name {
            "fill_last" if !mine.is_empty() => json!({"op": "fill", "i": mine.len() - 1, "v": op["v"]}),
            "pub_first" if !mine.is_empty() => json!({"op": "pub_idx", "i": 0, "v": mine[0].1}),
            "pub_last" if !mine.is_empty() => json!({"op": "pub_idx", "i": mine.len() - 1, "v": mine[mine.len() - 1].1}),
            "unleak_last" if !mine.is_empty() => json!({"op": "unleak_idx", "i": mine.len() - 1, "v": 0}),
            "pub_idx" => {
                let i = op["i"].as_u64().unwrap_or(0) as usize;
                json!({"op": "pub_idx", "i": i, "v": mine.get(i).map(|x| x.1).unwrap_or(0)})
            }
            "enq_if_clear" if mine.is_empty() => json!({"op": "enq", "i": 0, "v": op["v"]}),
            "fill_last" | "pub_first" | "pub_last" | "unleak_last" | "enq_if_clear" => json!({"op": "nop", "v": 0, "i": 0}),
            _ => op.clone(),
        }
    }

    fn exec(&self, ctx: &Ctx, op: &Value) -> Value {
        match op["op"].as_str().unwrap() {
            "nop" => json!({"ok": true, "v": 0}),
            "enq" => {
                let v = op["v"].as_u64().unwrap() as u32;
                let (len, back) = self.q.publish_movable(v);
                json!({"ok": back.is_none(), "v": len.map(|l| l.get()).unwrap_or(0)})
            }
            "deq" => match self.q.consume_movable() {
                Some(v) => json!({"ok": true, "v": v}),
                None => json!({"ok": false, "v": 0}),
            },
            "len" => json!({"ok": true, "v": (self.q.available_elements_count() as u64) % crate::sched::LOG_MOD}),
            "reserve" => match self.q.leak_slot_internal(|| false) {
                Some((slot, _slot_id, len_before)) => {
                    let idx = self.q.slot_index_from_slot_ref(slot);
                    self.reserved.lock().unwrap()[ctx.t].push((slot as *mut u32 as usize, 0));
                    json!({"ok": true, "v": idx, "lenb": len_before})
                }
                None => json!({"ok": false, "v": 0, "lenb": 0}),
            },
            "fill" => {
                let i = op["i"].as_u64().unwrap() as usize;
                let v = op["v"].as_u64().unwrap() as u32;
                let ptr = {
                    let mut r = self.reserved.lock().unwrap();
                    r[ctx.t][i].1 = v;
                    r[ctx.t][i].0
                };
                unsafe { std::ptr::write(ptr as *mut u32, v) };
                json!({"ok": true, "v": 0})
            }
            "pub_idx" => {
                // try_send_reserved's core
                let i = op["i"].as_u64().unwrap() as usize;
                let (ptr, _) = self.reserved.lock().unwrap()[ctx.t][i];
                let idx = self.q.slot_index_from_slot_ref(unsafe { &*(ptr as *const u32) });
                match self.q.try_publish_leaked_internal_index(idx) {
                    Some(len) => {
                        self.reserved.lock().unwrap()[ctx.t].remove(i);
                        json!({"ok": true, "v": len.get()})
                    }
                    None => json!({"ok": false, "v": 0}),
                }
            }
            "unleak_idx" => {
                let i = op["i"].as_u64().unwrap() as usize;
                let (ptr, _) = self.reserved.lock().unwrap()[ctx.t][i];
                let idx = self.q.slot_index_from_slot_ref(unsafe { &*(ptr as *const u32) });
                let ok = self.q.try_unleak_slot_index_internal(idx);
                if ok {
                    self.reserved.lock().unwrap()[ctx.t].remove(i);
                }
                json!({"ok": ok, "v": 0})
            }
            other => panic!("ring_atomic: unknown op {other}"),
        }
    }

    fn finish(&self, _stalled: bool) -> Value {
        let len = self.q.available_elements_count();
        let mut drained = vec![];
        while let Some(v) = self.q.consume_movable() {
            drained.push(v);
            if drained.len() > 4 * N {
                break;
            }
        }
        json!({"hard": false, "len": len, "drained": drained})
    }
}

pub struct RingFullSyncSut<const N: usize> {
    q: FullSyncMove<u32, N>,
}

fn mk_ring_fullsync<const N: usize>() -> Arc<dyn Sut> {
    Arc::new(RingFullSyncSut::<N> { q: FullSyncMove::new() })
}

impl<const N: usize> Sut for RingFullSyncSut<N> {
    fn resolve(&self, _t: usize, op: &Value) -> Value {
        match op["op"].as_str().unwrap_or("") {
            "enq_if_clear" => json!({"op": "enq", "i": 0, "v": op["v"]}),
            "fill_last" | "pub_first" | "pub_last" | "unleak_last" | "reserve" => json!({"op": "nop", "v": 0, "i": 0}),
            _ => op.clone(),
        }
    }

    fn exec(&self, _ctx: &Ctx, op: &Value) -> Value {
        match op["op"].as_str().unwrap() {
            "nop" => json!({"ok": true, "v": 0}),
            "enq" => {
                let v = op["v"].as_u64().unwrap() as u32;
                let (len, back) = self.q.publish_movable(v);
                json!({"ok": back.is_none(), "v": len.map(|l| l.get()).unwrap_or(0)})
            }
            "deq" => match self.q.consume_movable() {
                Some(v) => json!({"ok": true, "v": v}),
                None => json!({"ok": false, "v": 0}),
            },
            "len" => json!({"ok": true, "v": (self.q.available_elements_count() as u64) % crate::sched::LOG_MOD}),
            other => panic!("ring_fullsync: unknown op {other}"),
        }
    }

    fn finish(&self, _stalled: bool) -> Value {
        let len = self.q.available_elements_count();
        let mut drained = vec![];
        while let Some(v) = self.q.consume_movable() {
            drained.push(v);
            if drained.len() > 4 * N {
                break;
            }
        }
        json!({"hard": false, "len": len, "drained": drained})
    }
}

// ---------------------------------------------------------------------------------------------
// pool allocators

pub struct PoolSut<A: BoundedOgreAllocator<u64> + Send + Sync, const N: usize> {
    a: A,
    /// per logical thread: the ids it owns, oldest first
    owned: Mutex<Vec<Vec<u32>>>,
}

fn mk_pool_atomic<const N: usize>() -> Arc<dyn Sut> {
    Arc::new(PoolSut::<AllocatorAtomicArray<u64, N>, N> { a: AllocatorAtomicArray::<u64, N>::new(), owned: Mutex::new(vec![vec![]; 16]) })
}
fn mk_pool_fullsync<const N: usize>() -> Arc<dyn Sut> {
    Arc::new(PoolSut::<AllocatorFullSyncArray<u64, N>, N> { a: AllocatorFullSyncArray::<u64, N>::new(), owned: Mutex::new(vec![vec![]; 16]) })
}

impl<A: BoundedOgreAllocator<u64> + Send + Sync, const N: usize> Sut for PoolSut<A, N> {
    fn resolve(&self, t: usize, op: &Value) -> Value {
        // `free` / `free_ref`: release the oldest (or, with "last": the newest) slot this thread owns -- a no-op if it owns none
        let name = op["op"].as_str().unwrap_or("");
        if name == "free" || name == "free_ref" {
            let mut o = self.owned.lock().unwrap();
            let mine = &mut o[t];
            if mine.is_empty() {
                return json!({"op": "nop", "v": 0, "i": 0});
            }
            let id = if op["last"].as_bool().unwrap_or(false) { mine.pop().unwrap() } else { mine.remove(0) };
            return json!({"op": if name == "free" { "dealloc_id" } else { "dealloc_ref" }, "v": id, "i": 0});
        }
        op.clone()
    }

    fn exec(&self, ctx: &Ctx, op: &Value) -> Value {
        match op["op"].as_str().unwrap() {
            "nop" => json!({"ok": true, "v": 0}),
            "alloc" => match self.a.alloc_ref() {
                Some((r, id)) => {
                    let back = self.a.id_from_ref(r);
                    let again = self.a.ref_from_id(id) as *mut u64 as usize == r as *mut u64 as usize;
                    self.owned.lock().unwrap()[ctx.t].push(id);
                    json!({"ok": true, "v": id, "bij": back == id && again && (id as usize) < N})
                }
                None => json!({"ok": false, "v": 0, "bij": true}),
            },
            "alloc_with" => {
                let v = op["v"].as_u64().unwrap();
                match self.a.alloc_with(|slot| *slot = v) {
                    Some((r, id)) => {
                        self.owned.lock().unwrap()[ctx.t].push(id);
                        json!({"ok": true, "v": id, "bij": *r == v && (id as usize) < N})
                    }
                    None => json!({"ok": false, "v": 0, "bij": true}),
                }
            }
            "dealloc_id" => {
                self.a.dealloc_id(op["v"].as_u64().unwrap() as u32);
                json!({"ok": true, "v": 0})
            }
            "dealloc_ref" => {
                let id = op["v"].as_u64().unwrap() as u32;
                let r = self.a.ref_from_id(id);
                self.a.dealloc_ref(r);
                json!({"ok": true, "v": 0})
            }
            other => panic!("pool: unknown op {other}"),
        }
    }

    fn finish(&self, _stalled: bool) -> Value {
        // how many slots can be allocated now (must be POOL_SIZE - outstanding), in the order the free list hands them out
        let mut ids = vec![];
        while let Some((_r, id)) = self.a.alloc_ref() {
            ids.push(id);
            if ids.len() > 4 * N {
                break;
            }
        }
        // exhaustive id <-> reference bijection over the whole pool
        let mut addrs = std::collections::HashSet::new();
        let mut bij = true;
        for id in 0..N as u32 {
            let r = self.a.ref_from_id(id);
            bij &= self.a.id_from_ref(r) == id;
            addrs.insert(r as *mut u64 as usize);
        }
        bij &= addrs.len() == N;
        json!({"hard": false, "len": ids.len(), "drained": ids, "bij": bij})
    }
}


// ---------------------------------------------------------------------------------------------
// pool allocators holding payloads with a destructor (the destructor is a scheduling point and reports to the registry)

use crate::chan_suts::{anomalies_snapshot, drops_snapshot, reset_instruments, Pay, Tracked};

pub struct TrackedPoolSut<A: BoundedOgreAllocator<Tracked> + Send + Sync, const N: usize> {
    a: A,
    owned: Mutex<Vec<Vec<(u32, u64)>>>,
}

fn mk_tpool_atomic<const N: usize>() -> Arc<dyn Sut> {
    reset_instruments();
    Arc::new(TrackedPoolSut::<AllocatorAtomicArray<Tracked, N>, N> { a: AllocatorAtomicArray::<Tracked, N>::new(), owned: Mutex::new(vec![vec![]; 16]) })
}
fn mk_tpool_fullsync<const N: usize>() -> Arc<dyn Sut> {
    reset_instruments();
    Arc::new(TrackedPoolSut::<AllocatorFullSyncArray<Tracked, N>, N> { a: AllocatorFullSyncArray::<Tracked, N>::new(), owned: Mutex::new(vec![vec![]; 16]) })
}

impl<A: BoundedOgreAllocator<Tracked> + Send + Sync, const N: usize> Sut for TrackedPoolSut<A, N> {
    fn resolve(&self, t: usize, op: &Value) -> Value {
        let name = op["op"].as_str().unwrap_or("");
        if name == "free" || name == "free_ref" {
            let mut o = self.owned.lock().unwrap();
            let mine = &mut o[t];
            if mine.is_empty() {
                return json!({"op": "nop", "v": 0, "i": 0});
            }
            let (id, _v) = if op["last"].as_bool().unwrap_or(false) { mine.pop().unwrap() } else { mine.remove(0) };
            return json!({"op": if name == "free" { "dealloc_id" } else { "dealloc_ref" }, "v": id, "i": 0});
        }
        if name == "alloc" {
            // with a destructor around, every allocation initialises its slot (a distinct value per allocation)
            static NEXT: std::sync::atomic::AtomicU64 = std::sync::atomic::AtomicU64::new(1000);
            return json!({"op": "alloc_with", "v": NEXT.fetch_add(1, std::sync::atomic::Ordering::SeqCst) % 100000, "i": 0});
        }
        op.clone()
    }

    fn exec(&self, ctx: &Ctx, op: &Value) -> Value {
        match op["op"].as_str().unwrap() {
            "nop" => json!({"ok": true, "v": 0}),
            "alloc_with" => {
                let v = op["v"].as_u64().unwrap();
                match self.a.alloc_with(|slot| unsafe { std::ptr::write(slot, Tracked::mk(v)) }) {
                    Some((r, id)) => {
                        let back = self.a.id_from_ref(r);
                        self.owned.lock().unwrap()[ctx.t].push((id, v));
                        json!({"ok": true, "v": id, "bij": back == id && (id as usize) < N})
                    }
                    None => json!({"ok": false, "v": 0, "bij": true}),
                }
            }
            "dealloc_id" => {
                self.a.dealloc_id(op["v"].as_u64().unwrap() as u32);
                json!({"ok": true, "v": 0})
            }
            "dealloc_ref" => {
                let id = op["v"].as_u64().unwrap() as u32;
                let r = self.a.ref_from_id(id);
                self.a.dealloc_ref(r);
                json!({"ok": true, "v": 0})
            }
            other => panic!("tracked pool: unknown op {other}"),
        }
    }

    fn finish(&self, _stalled: bool) -> Value {
        // what is still owned must be alive and carry the value its owner wrote
        let mut wrong = vec![];
        for mine in self.owned.lock().unwrap().iter() {
            for (id, v) in mine.iter() {
                let r = self.a.ref_from_id(*id);
                if r.v() != *v {
                    wrong.push(json!([id, v, r.v()]));
                }
            }
        }
        let mut ids = vec![];
        while let Some((_r, id)) = self.a.alloc_ref() {
            ids.push(id);
            if ids.len() > 4 * N {
                break;
            }
        }
        let mut anomalies = anomalies_snapshot();
        if let Some(a) = anomalies.as_array_mut() {
            for w in wrong {
                a.push(json!(format!("slot still owned holds another payload: {w}")));
            }
        }
        json!({"hard": false, "len": ids.len(), "drained": ids, "bij": true, "anomalies": anomalies, "drops": drops_snapshot()})
    }
}
