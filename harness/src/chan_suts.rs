//! Uni / Multi channel adapters -- filled in later
use crate::Sut;
use serde_json::Value;
use std::sync::Arc;
pub fn make(_kind: &str, _scn: &Value) -> Option<Arc<dyn Sut>> {
    None
}
