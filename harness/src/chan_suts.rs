//! Uni / Multi channel adapters: every channel kind of the crate behind one object-safe API, driven by
//! scenario operations under the deterministic scheduler.
//!
//! Operations (JSON, field `op`):
//!   send {v} | send_with {v, y} | send_async {v, susp}            -> {ok, inv}
//!   reserve | fill {i, v} | send_reserved {i} | cancel_reserved {i}
//!   create {how} | poll {s, hold} | drive {s, max, hold} | drop_stream {s} | release {h}
//!   cancel_all | pending | running | is_open | teardown
//! `susp`: number of times the async setter suspends before it writes the payload; -1 = never resumed.

use crate::sched::Ctx;
use crate::Sut;
use futures::stream::Stream;
use reactive_mutiny::prelude::advanced::*;
use reactive_mutiny::types::{ChannelCommon, ChannelConsumer, ChannelMulti, ChannelProducer, ChannelUni};
use serde_json::{json, Value};
use std::collections::HashMap;
use std::fmt::Debug;
use std::future::Future;
use std::pin::Pin;
use std::sync::atomic::{AtomicBool, AtomicU64, Ordering::SeqCst};
use std::sync::{Arc, Mutex};
use std::task::{Context, Poll, RawWaker, RawWakerVTable, Waker};

// ---------------------------------------------------------------------------------------------
// payloads

/// value -> number of times a payload carrying it was destroyed (0 = created, alive)
static DROPS: Mutex<Option<HashMap<u64, u32>>> = Mutex::new(None);
/// things that must never happen, noticed by the instruments (use of a dropped allocator, ...)
static ANOMALIES: Mutex<Vec<String>> = Mutex::new(Vec::new());
static NAME_SEQ: AtomicU64 = AtomicU64::new(0);

pub fn reset_instruments() {
    *DROPS.lock().unwrap() = Some(HashMap::new());
    ANOMALIES.lock().unwrap().clear();
}

fn anomaly(s: String) {
    ANOMALIES.lock().unwrap().push(s);
}

/// what the instruments saw, as `[[value, drops], ...]` sorted by value
pub fn drops_snapshot() -> Value {
    let g = DROPS.lock().unwrap();
    let mut v: Vec<(u64, u32)> = g.as_ref().map(|m| m.iter().map(|(k, c)| (*k, *c)).collect()).unwrap_or_default();
    v.sort();
    json!(v.iter().map(|(k, c)| json!([k, c])).collect::<Vec<_>>())
}

pub fn anomalies_snapshot() -> Value {
    json!(ANOMALIES.lock().unwrap().clone())
}

pub trait Pay: Debug + Send + Sync + Default + 'static {
    fn mk(v: u64) -> Self;
    fn v(&self) -> u64;
    const TRACKED: bool;
}

impl Pay for u64 {
    fn mk(v: u64) -> Self {
        v
    }
    fn v(&self) -> u64 {
        *self
    }
    const TRACKED: bool = false;
}

/// a payload with a destructor that reports to the registry
#[derive(Debug, Default)]
pub struct Tracked {
    v: u64,
    /// guards against reading a destroyed payload
    alive: u64,
}

const ALIVE: u64 = 0xA11CE;

impl Pay for Tracked {
    fn mk(v: u64) -> Self {
        if let Some(m) = DROPS.lock().unwrap().as_mut() {
            m.entry(v).or_insert(0);
        }
        Tracked { v, alive: ALIVE }
    }
    fn v(&self) -> u64 {
        // reading a delivered payload takes time too: storage that was released too early can be overwritten meanwhile
        crate::sched::yield_here("payload.read");
        if self.alive != ALIVE {
            anomaly(format!("payload {} read while not alive (marker {:#x})", self.v, self.alive));
        }
        self.v
    }
    const TRACKED: bool = true;
}

/// number of tracked payloads whose destructor is running right now
pub static DROPPING: std::sync::atomic::AtomicU32 = std::sync::atomic::AtomicU32::new(0);

impl Drop for Tracked {
    fn drop(&mut self) {
        // a destructor takes time: other threads may run between its start and the moment the payload is gone
        // (this is what exposes storage handed to a new event while the old payload is still being destroyed)
        DROPPING.fetch_add(1, SeqCst);
        crate::sched::yield_here("payload.drop");
        DROPPING.fetch_sub(1, SeqCst);
        if self.alive == ALIVE {
            if let Some(m) = DROPS.lock().unwrap().as_mut() {
                *m.entry(self.v).or_insert(0) += 1;
            }
            self.alive = 0xDEAD;
        } else if self.alive == 0xDEAD {
            if let Some(m) = DROPS.lock().unwrap().as_mut() {
                *m.entry(self.v).or_insert(0) += 1;
            }
        }
        // anything else: never-initialised bytes (a cancelled reservation, a Default instance) -- nothing to account for
    }
}

// ---------------------------------------------------------------------------------------------
// an allocator wrapper that notices being used after it was dropped

pub struct WatchAlloc<P: Pay, A: BoundedOgreAllocator<P>> {
    inner: std::mem::ManuallyDrop<A>,
    dropped: AtomicBool,
    _p: std::marker::PhantomData<P>,
}

impl<P: Pay, A: BoundedOgreAllocator<P>> Debug for WatchAlloc<P, A> {
    fn fmt(&self, f: &mut std::fmt::Formatter<'_>) -> std::fmt::Result {
        write!(f, "WatchAlloc")
    }
}
impl<P: Pay, A: BoundedOgreAllocator<P>> PartialEq for WatchAlloc<P, A> {
    fn eq(&self, other: &Self) -> bool {
        std::ptr::eq(self, other)
    }
}
impl<P: Pay, A: BoundedOgreAllocator<P>> Drop for WatchAlloc<P, A> {
    fn drop(&mut self) {
        // the inner allocator is leaked on purpose: a later (illegal) use is then observable without undefined behaviour
        self.dropped.store(true, SeqCst);
    }
}
impl<P: Pay, A: BoundedOgreAllocator<P>> WatchAlloc<P, A> {
    fn check(&self, what: &str) -> bool {
        if self.dropped.load(SeqCst) {
            anomaly(format!("allocator used after it was dropped: {what}"));
            false
        } else {
            true
        }
    }
}
impl<P: Pay, A: BoundedOgreAllocator<P>> BoundedOgreAllocator<P> for WatchAlloc<P, A> {
    type OwnedSlotType = A::OwnedSlotType;
    fn new() -> Self {
        Self { inner: std::mem::ManuallyDrop::new(A::new()), dropped: AtomicBool::new(false), _p: std::marker::PhantomData }
    }
    fn alloc_ref(&self) -> Option<(&mut P, u32)> {
        self.check("alloc_ref");
        self.inner.alloc_ref()
    }
    fn alloc_with(&self, setter: impl FnOnce(&mut P)) -> Option<(&mut P, u32)> {
        self.check("alloc_with");
        self.inner.alloc_with(setter)
    }
    async fn alloc_with_async<'r, Fut: Future<Output = (&'r mut P, u32)>>(&'r self, setter: impl FnOnce(&'r mut P, u32) -> Fut) -> Option<(&'r mut P, u32)>
    where
        P: 'r,
    {
        self.inner.alloc_with_async(setter).await
    }
    fn dealloc_ref(&self, slot: &P) {
        if self.check("dealloc_ref") {
            self.inner.dealloc_ref(slot)
        }
    }
    fn dealloc_id(&self, slot_id: u32) {
        if self.check("dealloc_id") {
            self.inner.dealloc_id(slot_id)
        }
    }
    fn id_from_ref(&self, slot: &P) -> u32 {
        self.inner.id_from_ref(slot)
    }
    fn ref_from_id(&self, slot_id: u32) -> &mut P {
        self.inner.ref_from_id(slot_id)
    }
}

// ---------------------------------------------------------------------------------------------
// delivered items

pub trait Held: Send {
    fn val(&self) -> u64;
    /// address of the payload (0 when the payload is moved around)
    fn addr(&self) -> usize;
}

macro_rules! held_for_payload {
    ($t: ty) => {
        impl Held for $t {
            fn val(&self) -> u64 {
                Pay::v(self)
            }
            fn addr(&self) -> usize {
                0
            }
        }
    };
}
held_for_payload!(u64);
held_for_payload!(Tracked);

impl<P: Pay> Held for Arc<P> {
    fn val(&self) -> u64 {
        (**self).v()
    }
    fn addr(&self) -> usize {
        Arc::as_ptr(self) as usize
    }
}
impl<P: Pay> Held for &'static P {
    fn val(&self) -> u64 {
        (**self).v()
    }
    fn addr(&self) -> usize {
        *self as *const P as usize
    }
}
impl<P: Pay, A: BoundedOgreAllocator<P> + Send + Sync + 'static> Held for OgreUnique<P, A> {
    fn val(&self) -> u64 {
        (**self).v()
    }
    fn addr(&self) -> usize {
        &**self as *const P as usize
    }
}
impl<P: Pay, A: BoundedOgreAllocator<P> + Send + Sync + 'static> Held for OgreArc<P, A> {
    fn val(&self) -> u64 {
        (**self).v()
    }
    fn addr(&self) -> usize {
        &**self as *const P as usize
    }
}

pub enum Polled {
    Item(Box<dyn Held>),
    Pending,
    End,
}

pub trait StreamApi: Send {
    fn poll(&mut self, waker: &Waker) -> Polled;
    fn id(&self) -> u32;
}

struct BoxedStream<D: Held + 'static> {
    s: Pin<Box<dyn Stream<Item = D> + Send>>,
    id: u32,
}

impl<D: Held + 'static> StreamApi for BoxedStream<D> {
    fn poll(&mut self, waker: &Waker) -> Polled {
        let mut cx = Context::from_waker(waker);
        match self.s.as_mut().poll_next(&mut cx) {
            Poll::Ready(Some(d)) => Polled::Item(Box::new(d)),
            Poll::Ready(None) => Polled::End,
            Poll::Pending => Polled::Pending,
        }
    }
    fn id(&self) -> u32 {
        self.id
    }
}

// ---------------------------------------------------------------------------------------------
// the channel API, object safe

/// Runs one of the crate's asynchronous polling loops (`flush`, `gracefully_end_all_streams`: check, wake, `tokio::time::sleep(1ms)`, again)
/// on the calling logical thread: a current-thread tokio runtime with a paused clock supplies the timer (its clock jumps to the next deadline
/// whenever the future is pending), and every `Pending` -- i.e. every sleep of the loop -- is a scheduling point after which the thread goes
/// on only once another thread has taken a step or nobody else can run.  Returns (result, number of sleeps).
fn drive_polling_loop<F: std::future::Future<Output = u32>>(ctx: &Ctx, fut: F) -> (u32, u64) {
    let rt = tokio::runtime::Builder::new_current_thread().enable_time().start_paused(true).build().unwrap();
    let mut sleeps = 0u64;
    let r = rt.block_on(async {
        let mut fut = Box::pin(fut);
        std::future::poll_fn(|cx| match fut.as_mut().poll(cx) {
            Poll::Ready(n) => Poll::Ready(n),
            Poll::Pending => {
                sleeps += 1;
                ctx.sleep_point();
                ctx.note("slept", json!(""));
                Poll::Pending
            }
        })
        .await
    });
    (r, sleeps)
}

pub trait ChanApi: Send + Sync {
    fn send(&self, v: u64) -> bool;
    fn send_with(&self, ctx: &Ctx, v: u64, yield_inside: bool) -> (bool, bool);
    fn send_async(&self, ctx: &Ctx, v: u64, susp: i64) -> (bool, bool, bool);
    fn reserve(&self) -> Option<usize>;
    fn fill(&self, ptr: usize, v: u64);
    fn send_reserved(&self, ptr: usize) -> bool;
    fn cancel_reserved(&self, ptr: usize) -> bool;
    fn create(&self, how: &str) -> Vec<Box<dyn StreamApi>>;
    fn cancel_all(&self);
    /// gracefully_end_all_streams(Duration::ZERO) -- unbounded timeout; returns the number of streams still running
    fn end_all(&self, ctx: &Ctx) -> (u32, u64);
    /// flush(Duration::ZERO); returns the number of items still pending
    fn flush(&self, ctx: &Ctx) -> (u32, u64);
    fn pending(&self) -> u32;
    fn running(&self) -> u32;
    fn is_open(&self) -> bool;
    fn consume_direct(&self, stream_id: u32) -> Option<Box<dyn Held>>;
    fn strong_count(&self) -> usize;
}

pub trait Creator<C, D: Held + 'static>: Send + Sync + 'static {
    fn create(c: &Arc<C>, how: &str) -> Vec<Box<dyn StreamApi>>;
}

pub struct UniK;
pub struct MultiK;

impl<P: Pay, D: Held + Debug + Send + Sync + 'static, C> Creator<C, D> for UniK
where
    C: FullDuplexUniChannel<ItemType = P, DerivedItemType = D> + Send + Sync + 'static,
{
    fn create(c: &Arc<C>, _how: &str) -> Vec<Box<dyn StreamApi>> {
        let (s, id) = c.create_stream();
        vec![Box::new(BoxedStream::<D> { s: Box::pin(s), id })]
    }
}

impl<P: Pay, D: Held + Debug + Send + Sync + 'static, C> Creator<C, D> for MultiK
where
    C: FullDuplexMultiChannel<ItemType = P, DerivedItemType = D> + Send + Sync + 'static,
{
    fn create(c: &Arc<C>, how: &str) -> Vec<Box<dyn StreamApi>> {
        match how {
            "old" => {
                let (s, id) = c.create_stream_for_old_events();
                vec![Box::new(BoxedStream::<D> { s: Box::pin(s), id })]
            }
            "joined" => {
                let (s, id) = c.create_stream_for_old_and_new_events();
                vec![Box::new(BoxedStream::<D> { s: Box::pin(s), id })]
            }
            "split" => {
                let ((so, ido), (sn, idn)) = c.create_streams_for_old_and_new_events();
                vec![Box::new(BoxedStream::<D> { s: Box::pin(so), id: ido }), Box::new(BoxedStream::<D> { s: Box::pin(sn), id: idn })]
            }
            _ => {
                let (s, id) = c.create_stream_for_new_events();
                vec![Box::new(BoxedStream::<D> { s: Box::pin(s), id })]
            }
        }
    }
}

pub struct Chan<C, P, D, K> {
    c: Arc<C>,
    _p: std::marker::PhantomData<(P, D, K)>,
}

unsafe impl<C: Send + Sync, P, D, K> Send for Chan<C, P, D, K> {}
unsafe impl<C: Send + Sync, P, D, K> Sync for Chan<C, P, D, K> {}

/// a future that answers Pending `n` times
struct Suspend(i64);
impl Future for Suspend {
    type Output = ();
    fn poll(mut self: Pin<&mut Self>, _cx: &mut Context<'_>) -> Poll<()> {
        if self.0 == 0 {
            Poll::Ready(())
        } else {
            if self.0 > 0 {
                self.0 -= 1;
            }
            Poll::Pending
        }
    }
}

fn noop_waker() -> Waker {
    fn clone(_: *const ()) -> RawWaker {
        RawWaker::new(std::ptr::null(), &VT)
    }
    fn noop(_: *const ()) {}
    static VT: RawWakerVTable = RawWakerVTable::new(clone, noop, noop, noop);
    unsafe { Waker::from_raw(RawWaker::new(std::ptr::null(), &VT)) }
}

fn is_ok<I>(r: &keen_retry::RetryConsumerResult<(), I, ()>) -> bool {
    matches!(r, keen_retry::RetryResult::Ok { .. })
}

impl<C, P, D, K> ChanApi for Chan<C, P, D, K>
where
    P: Pay,
    D: Held + Debug + Send + Sync + 'static,
    C: ChannelCommon<P, D> + ChannelProducer<'static, P, D> + ChannelConsumer<'static, D> + Send + Sync + 'static,
    K: Creator<C, D>,
{
    fn send(&self, v: u64) -> bool {
        let item = P::mk(v);
        let r = self.c.send(item);
        let ok = is_ok(&r);
        if !ok {
            // the rejected payload is handed back: it must be the one we gave
            if let keen_retry::RetryResult::Transient { input, .. } = &r {
                if input.v() != v {
                    anomaly(format!("rejected send handed back {} instead of {}", input.v(), v));
                }
            }
        }
        ok
    }

    fn send_with(&self, ctx: &Ctx, v: u64, yield_inside: bool) -> (bool, bool) {
        let invoked = std::cell::Cell::new(false);
        let r = self.c.send_with(|slot: &mut P| {
            invoked.set(true);
            if yield_inside {
                ctx.yield_now("setter");
            }
            unsafe { std::ptr::write(slot, P::mk(v)) };
        });
        let ok = is_ok(&r);
        (ok, invoked.get())
    }

    fn send_async(&self, ctx: &Ctx, v: u64, susp: i64) -> (bool, bool, bool) {
        let c: &'static C = unsafe { &*(Arc::as_ptr(&self.c)) };
        let invoked = Arc::new(AtomicBool::new(false));
        let inv2 = Arc::clone(&invoked);
        let fut = c.send_with_async(move |slot: &'static mut P| {
            inv2.store(true, SeqCst);
            async move {
                Suspend(susp).await;
                unsafe { std::ptr::write(slot as *mut P, P::mk(v)) };
                slot
            }
        });
        let mut fut = Box::pin(fut);
        let w = noop_waker();
        let mut cx = Context::from_waker(&w);
        loop {
            match fut.as_mut().poll(&mut cx) {
                Poll::Ready(r) => return (is_ok(&r), invoked.load(SeqCst), true),
                Poll::Pending => {
                    if susp < 0 {
                        ctx.note("suspended", json!({"v": v}));
                        let _ = ctx.freeze();
                        // the run is over: the future is abandoned as it is (never dropped: its destructor could touch a torn-down channel)
                        std::mem::forget(fut);
                        return (false, invoked.load(SeqCst), false);
                    }
                    ctx.yield_now("async-suspended");
                }
            }
        }
    }

    fn reserve(&self) -> Option<usize> {
        self.c.reserve_slot().map(|r| r as *mut P as usize)
    }
    fn fill(&self, ptr: usize, v: u64) {
        unsafe { std::ptr::write(ptr as *mut P, P::mk(v)) };
    }
    fn send_reserved(&self, ptr: usize) -> bool {
        self.c.try_send_reserved(unsafe { &mut *(ptr as *mut P) })
    }
    fn cancel_reserved(&self, ptr: usize) -> bool {
        self.c.try_cancel_slot_reserve(unsafe { &mut *(ptr as *mut P) })
    }
    fn create(&self, how: &str) -> Vec<Box<dyn StreamApi>> {
        K::create(&self.c, how)
    }
    fn cancel_all(&self) {
        self.c.cancel_all_streams()
    }
    fn end_all(&self, ctx: &Ctx) -> (u32, u64) {
        let c = Arc::clone(&self.c);
        drive_polling_loop(ctx, async move { c.gracefully_end_all_streams(std::time::Duration::ZERO).await })
    }
    fn flush(&self, ctx: &Ctx) -> (u32, u64) {
        let c = Arc::clone(&self.c);
        drive_polling_loop(ctx, async move { c.flush(std::time::Duration::ZERO).await })
    }
    fn pending(&self) -> u32 {
        self.c.pending_items_count()
    }
    fn running(&self) -> u32 {
        self.c.running_streams_count()
    }
    fn is_open(&self) -> bool {
        self.c.is_channel_open()
    }
    fn consume_direct(&self, stream_id: u32) -> Option<Box<dyn Held>> {
        self.c.consume(stream_id).map(|d| Box::new(d) as Box<dyn Held>)
    }
    fn strong_count(&self) -> usize {
        Arc::strong_count(&self.c)
    }
}

fn mk_chan<C, P, D, K>(name: &str) -> Box<dyn ChanApi>
where
    P: Pay,
    D: Held + Debug + Send + Sync + 'static,
    C: ChannelCommon<P, D> + ChannelProducer<'static, P, D> + ChannelConsumer<'static, D> + Send + Sync + 'static,
    K: Creator<C, D>,
{
    Box::new(Chan::<C, P, D, K> { c: C::new(name), _p: std::marker::PhantomData })
}

type WA<P, const N: usize> = WatchAlloc<P, AllocatorAtomicArray<P, N>>;
type WF<P, const N: usize> = WatchAlloc<P, AllocatorFullSyncArray<P, N>>;
type UniZcAtomic<P, const N: usize, const S: usize> = reactive_mutiny::uni::channels::zero_copy::atomic::Atomic<'static, P, WA<P, N>, N, S>;
type UniZcFullSync<P, const N: usize, const S: usize> = reactive_mutiny::uni::channels::zero_copy::full_sync::FullSync<'static, P, WF<P, N>, N, S>;
type MultiOgreAtomic<P, const N: usize, const S: usize> = reactive_mutiny::multi::channels::ogre_arc::atomic::Atomic<'static, P, WA<P, N>, N, S>;
type MultiOgreFullSync<P, const N: usize, const S: usize> = reactive_mutiny::multi::channels::ogre_arc::full_sync::FullSync<'static, P, WF<P, N>, N, S>;

fn mk_kind<P: Pay + Held, const N: usize, const S: usize>(kind: &str, name: &str) -> Option<Box<dyn ChanApi>> {
    Some(match kind {
        "uni_move_atomic" => mk_chan::<ChannelUniMoveAtomic<P, N, S>, P, P, UniK>(name),
        "uni_move_fullsync" => mk_chan::<ChannelUniMoveFullSync<P, N, S>, P, P, UniK>(name),
        "uni_move_crossbeam" => mk_chan::<ChannelUniMoveCrossbeam<P, N, S>, P, P, UniK>(name),
        "uni_zc_atomic" => mk_chan::<UniZcAtomic<P, N, S>, P, OgreUnique<P, WA<P, N>>, UniK>(name),
        "uni_zc_fullsync" => mk_chan::<UniZcFullSync<P, N, S>, P, OgreUnique<P, WF<P, N>>, UniK>(name),
        "multi_arc_atomic" => mk_chan::<ChannelMultiArcAtomic<P, N, S>, P, Arc<P>, MultiK>(name),
        "multi_arc_fullsync" => mk_chan::<ChannelMultiArcFullSync<P, N, S>, P, Arc<P>, MultiK>(name),
        "multi_arc_crossbeam" => mk_chan::<ChannelMultiArcCrossbeam<P, N, S>, P, Arc<P>, MultiK>(name),
        "multi_ogre_atomic" => mk_chan::<MultiOgreAtomic<P, N, S>, P, OgreArc<P, WA<P, N>>, MultiK>(name),
        "multi_ogre_fullsync" => mk_chan::<MultiOgreFullSync<P, N, S>, P, OgreArc<P, WF<P, N>>, MultiK>(name),
        _ => return None,
    })
}

fn mk_mmap<P: Pay + Held, const S: usize>(name: &str) -> Box<dyn ChanApi> {
    mk_chan::<ChannelMultiMmapLog<P, S>, P, &'static P, MultiK>(name)
}

fn mk_by_size<P: Pay + Held>(kind: &str, n: u64, s: u64, name: &str) -> Option<Box<dyn ChanApi>> {
    if kind == "multi_mmap" {
        return Some(match s {
            1 => mk_mmap::<P, 1>(name),
            2 => mk_mmap::<P, 2>(name),
            4 => mk_mmap::<P, 4>(name),
            _ => return None,
        });
    }
    match (n, s) {
        (2, 1) => mk_kind::<P, 2, 1>(kind, name),
        (2, 2) => mk_kind::<P, 2, 2>(kind, name),
        (4, 1) => mk_kind::<P, 4, 1>(kind, name),
        (4, 2) => mk_kind::<P, 4, 2>(kind, name),
        (4, 4) => mk_kind::<P, 4, 4>(kind, name),
        (8, 2) => mk_kind::<P, 8, 2>(kind, name),
        (8, 4) => mk_kind::<P, 8, 4>(kind, name),
        _ => None,
    }
}

// ---------------------------------------------------------------------------------------------
// the SUT

/// the capacity probe is meaningful at quiescence too (parked tasks), so it is never skipped for that reason
fn not_complete_blocks(_not_complete: bool) -> bool {
    false
}

pub struct ChanSut {
    api: Mutex<Option<Box<dyn ChanApi>>>,
    api_ref: &'static dyn ChanApi,
    streams: Mutex<Vec<Option<Box<dyn StreamApi>>>>,
    stream_ids: Mutex<Vec<u32>>,
    held: Mutex<Vec<Option<Box<dyn Held>>>>,
    reserved: Mutex<Vec<Vec<(usize, u64)>>>,
    frozen: AtomicBool,
    mmap_file: Option<String>,
    multi: bool,
    tracked: bool,
    drain: bool,
    probe: i64,
    max_streams: u32,
}

pub fn make(kind: &str, scn: &Value) -> Option<Arc<dyn Sut>> {
    if !(kind.starts_with("uni_") || kind.starts_with("multi_")) {
        return None;
    }
    let n = scn["n"].as_u64().unwrap_or(2);
    let s = scn["s"].as_u64().unwrap_or(1);
    let tracked = scn["payload"].as_str().unwrap_or("tracked") == "tracked";
    reset_instruments();
    let name = format!("rmverif-{}-{}", std::process::id(), NAME_SEQ.fetch_add(1, SeqCst));
    let api = if tracked { mk_by_size::<Tracked>(kind, n, s, &name) } else { mk_by_size::<u64>(kind, n, s, &name) }?;
    let api_ref: &'static dyn ChanApi = unsafe { &*(api.as_ref() as *const dyn ChanApi) };
    let sut = ChanSut {
        api: Mutex::new(Some(api)),
        api_ref,
        streams: Mutex::new(vec![]),
        stream_ids: Mutex::new(vec![]),
        held: Mutex::new(vec![]),
        reserved: Mutex::new(vec![vec![]; 16]),
        frozen: AtomicBool::new(false),
        mmap_file: if kind == "multi_mmap" { Some(format!("/tmp/{name}.mmap")) } else { None },
        multi: kind.starts_with("multi_"),
        tracked,
        drain: scn["drain"].as_bool().unwrap_or(true),
        probe: scn["probe"].as_i64().unwrap_or(-1),
        max_streams: s as u32,
    };
    // streams created before any thread runs (hooks inactive)
    for how in scn["pre_streams"].as_array().cloned().unwrap_or_default() {
        sut.create(how.as_str().unwrap_or("new"));
    }
    Some(Arc::new(sut))
}

impl ChanSut {
    fn api(&self) -> &'static dyn ChanApi {
        self.api_ref
    }

    #[allow(clippy::needless_lifetimes)]
    fn create(&self, how: &str) -> Vec<(usize, u32)> {
        let new = self.api().create(how);
        let mut st = self.streams.lock().unwrap();
        let mut ids = self.stream_ids.lock().unwrap();
        let mut out = vec![];
        for s in new {
            let id = s.id();
            st.push(Some(s));
            ids.push(id);
            out.push((st.len() - 1, id));
        }
        out
    }

    fn take_stream(&self, s: usize) -> Option<Box<dyn StreamApi>> {
        self.streams.lock().unwrap().get_mut(s).and_then(|x| x.take())
    }
    fn put_stream(&self, s: usize, st: Box<dyn StreamApi>) {
        self.streams.lock().unwrap()[s] = Some(st);
    }

    fn hold(&self, item: Box<dyn Held>) -> usize {
        let mut h = self.held.lock().unwrap();
        h.push(Some(item));
        h.len() - 1
    }

    fn poll_once(&self, ctx: &Ctx, s: usize, hold: bool) -> Value {
        let Some(mut st) = self.take_stream(s) else {
            return json!({"r": "nostream", "s": s, "v": 0, "h": -1, "addr": 0});
        };
        let w = ctx.waker();
        let r = st.poll(&w);
        self.put_stream(s, st);
        match r {
            Polled::Item(item) => {
                let v = item.val();
                let addr = item.addr();
                let h = if hold { self.hold(item) as i64 } else { -1 };
                json!({"r": "item", "s": s, "v": v, "h": h, "addr": addr % (1 << 30)})
            }
            Polled::Pending => json!({"r": "pending", "s": s, "v": 0, "h": -1, "addr": 0}),
            Polled::End => json!({"r": "end", "s": s, "v": 0, "h": -1, "addr": 0}),
        }
    }
}

impl Sut for ChanSut {
    fn resolve(&self, t: usize, op: &Value) -> Value {
        let name = op["op"].as_str().unwrap_or("");
        let r = self.reserved.lock().unwrap();
        let mine = &r[t];
        let nop = json!({"op": "nop", "v": 0, "i": 0});
        match name {
            "fill_last" => if mine.is_empty() { nop } else { json!({"op": "fill", "i": mine.len() - 1, "v": op["v"]}) },
            "send_reserved_first" => if mine.is_empty() { nop } else { json!({"op": "send_reserved", "i": 0, "v": mine[0].1, "tries": op["tries"].as_u64().unwrap_or(12)}) },
            "send_reserved_last" => if mine.is_empty() { nop } else { json!({"op": "send_reserved", "i": mine.len() - 1, "v": mine[mine.len() - 1].1, "tries": op["tries"].as_u64().unwrap_or(12)}) },
            "cancel_reserved_last" => if mine.is_empty() { nop } else { json!({"op": "cancel_reserved", "i": mine.len() - 1, "v": mine[mine.len() - 1].1, "tries": op["tries"].as_u64().unwrap_or(12)}) },
            "send_with_if_clear" => if mine.is_empty() { json!({"op": "send_with", "v": op["v"], "y": op["y"].as_bool().unwrap_or(false), "i": 0}) } else { nop },
            "send_reserved" | "cancel_reserved" => {
                let i = op["i"].as_u64().unwrap_or(0) as usize;
                match mine.get(i) {
                    Some(x) => json!({"op": name, "i": i, "v": x.1}),
                    None => nop,
                }
            }
            "send_if_clear" => if mine.is_empty() { json!({"op": "send", "v": op["v"], "i": 0}) } else { nop },
            _ => op.clone(),
        }
    }

    fn exec(&self, ctx: &Ctx, op: &Value) -> Value {
        let api = self.api();
        let name = op["op"].as_str().unwrap();
        match name {
            "nop" => json!({"ok": true, "v": 0}),
            "send" => json!({"ok": api.send(op["v"].as_u64().unwrap()), "inv": false, "v": 0}),
            "send_with" => {
                let (ok, inv) = api.send_with(ctx, op["v"].as_u64().unwrap(), op["y"].as_bool().unwrap_or(false));
                json!({"ok": ok, "inv": inv, "v": 0})
            }
            "send_async" => {
                let susp = op["susp"].as_i64().unwrap_or(0);
                if susp < 0 {
                    self.frozen.store(true, SeqCst);
                }
                let (ok, inv, done) = api.send_async(ctx, op["v"].as_u64().unwrap(), susp);
                json!({"ok": ok, "inv": inv, "done": done, "v": 0})
            }
            "reserve" => match api.reserve() {
                Some(ptr) => {
                    self.reserved.lock().unwrap()[ctx.t].push((ptr, 0));
                    json!({"ok": true, "v": 0})
                }
                None => json!({"ok": false, "v": 0}),
            },
            "fill" => {
                let i = op["i"].as_u64().unwrap() as usize;
                let v = op["v"].as_u64().unwrap();
                let ptr = {
                    let mut r = self.reserved.lock().unwrap();
                    r[ctx.t][i].1 = v;
                    r[ctx.t][i].0
                };
                api.fill(ptr, v);
                json!({"ok": true, "v": 0})
            }
            "send_reserved" | "cancel_reserved" => {
                let i = op["i"].as_u64().unwrap() as usize;
                let ptr = self.reserved.lock().unwrap()[ctx.t][i].0;
                // "once that call answers true": the documented use is to retry (bounded here)
                let mut tries = op["tries"].as_u64().unwrap_or(12);
                let ok = loop {
                    let ok = if name == "send_reserved" { api.send_reserved(ptr) } else { api.cancel_reserved(ptr) };
                    tries -= 1;
                    if ok || tries == 0 {
                        break ok;
                    }
                    ctx.yield_now("retry-reserved");
                };
                if ok {
                    self.reserved.lock().unwrap()[ctx.t].remove(i);
                }
                json!({"ok": ok, "v": 0})
            }
            "create" => {
                let how = op["how"].as_str().unwrap_or("new");
                let made = self.create(how);
                let how_of = if how == "split" { "old" } else { how };
                json!({"ok": true, "v": 0, "how": how_of, "s": made.iter().map(|x| x.0).collect::<Vec<_>>(), "ids": made.iter().map(|x| x.1).collect::<Vec<_>>()})
            }
            "create_if_room" => {
                // what a careful user does: a new stream only when the channel reports room for one
                // (the room reading comes first: with `dropping`, the stream is created only if -- after room was seen -- a payload
                //  destructor is running at this very instant, with no scheduling point between that observation and the creation)
                let room = api.running() < self.max_streams;
                let gate = !op["dropping"].as_bool().unwrap_or(false) || DROPPING.load(SeqCst) > 0;
                let made = if room && gate { self.create("new") } else { vec![] };
                json!({"ok": true, "v": 0, "how": "new", "s": made.iter().map(|x| x.0).collect::<Vec<_>>(), "ids": made.iter().map(|x| x.1).collect::<Vec<_>>()})
            }
            "wait_drop" => {
                // waits (a bounded number of scheduling steps) until some payload's destructor is running on another thread
                let mut seen = false;
                for _ in 0..op["tries"].as_u64().unwrap_or(40) {
                    if DROPPING.load(SeqCst) > 0 {
                        seen = true;
                        break;
                    }
                    ctx.yield_now("wait-drop");
                }
                json!({"ok": seen, "v": 0})
            }
            "poll" => self.poll_once(ctx, op["s"].as_u64().unwrap() as usize, op["hold"].as_bool().unwrap_or(false)),
            "drive" => {
                // an executor task: poll; on Pending park until woken; stop at end-of-stream (or after `max` items)
                let s = op["s"].as_u64().unwrap() as usize;
                let max = op["max"].as_u64().unwrap_or(u64::MAX);
                let hold = op["hold"].as_bool().unwrap_or(false);
                let mut got = 0u64;
                let mut last = "max";
                while got < max {
                    ctx.clear_notified();
                    ctx.call("poll", json!({"op": "poll", "s": s, "v": 0, "i": 0}));
                    let r = self.poll_once(ctx, s, hold);
                    let kind = r["r"].as_str().unwrap().to_string();
                    ctx.ret("poll", r);
                    match kind.as_str() {
                        "item" => got += 1,
                        "pending" => {
                            ctx.note("park", json!({"s": s}));
                            if ctx.park().is_err() {
                                last = "parked";
                                break;
                            }
                            ctx.note("unpark", json!({"s": s}));
                        }
                        _ => {
                            last = "end";
                            break;
                        }
                    }
                }
                json!({"ok": true, "v": got, "s": s, "last": last})
            }
            "drop_stream" => {
                let s = op["s"].as_u64().unwrap() as usize;
                let st = self.take_stream(s);
                let had = st.is_some();
                drop(st);
                json!({"ok": had, "v": 0, "s": s})
            }
            "release" => {
                let h = op["h"].as_u64().unwrap() as usize;
                let item = self.held.lock().unwrap().get_mut(h).and_then(|x| x.take());
                let had = item.is_some();
                drop(item);
                json!({"ok": had, "v": 0})
            }
            "release_all" => {
                let items: Vec<_> = self.held.lock().unwrap().iter_mut().filter_map(|x| x.take()).collect();
                let k = items.len();
                drop(items);
                json!({"ok": true, "v": k})
            }
            "cancel_all" => {
                api.cancel_all();
                json!({"ok": true, "v": 0})
            }
            "close" => {
                let (left, sleeps) = api.end_all(ctx);
                json!({"ok": left == 0, "v": left, "sleeps": sleeps, "open": api.is_open(), "running": api.running()})
            }
            "flush" => {
                let (left, sleeps) = api.flush(ctx);
                json!({"ok": left == 0, "v": left, "sleeps": sleeps})
            }
            "pending" => json!({"ok": true, "v": api.pending()}),
            "running" => json!({"ok": true, "v": api.running()}),
            "is_open" => json!({"ok": api.is_open(), "v": 0}),
            other => panic!("channel: unknown op {other}"),
        }
    }

    fn finish(&self, not_complete: bool) -> Value {
        let api = self.api();
        let frozen = self.frozen.load(SeqCst);
        let pending = api.pending();
        let running = api.running();
        let open = api.is_open();
        let ids = self.stream_ids.lock().unwrap().clone();
        let live: Vec<usize> = self.streams.lock().unwrap().iter().enumerate().filter(|(_, s)| s.is_some()).map(|(i, _)| i).collect();
        // what is still buffered, per stream (Uni: one queue, seen through the first live stream)
        let mut left: Vec<Value> = vec![];
        if !frozen && self.drain {
            let mut budget = 64;
            if self.multi {
                for &i in live.iter() {
                    let mut vs = vec![];
                    while budget > 0 {
                        budget -= 1;
                        match api.consume_direct(ids[i]) {
                            Some(item) => vs.push(item.val()),
                            None => break,
                        }
                    }
                    left.push(json!({"s": i, "vs": vs}));
                }
            } else {
                let mut vs = vec![];
                while budget > 0 {
                    budget -= 1;
                    match api.consume_direct(ids.first().copied().unwrap_or(0)) {
                        Some(item) => vs.push(item.val()),
                        None => break,
                    }
                }
                left.push(json!({"s": 0, "vs": vs}));
            }
        }
        let held_now = self.held.lock().unwrap().iter().filter(|x| x.is_some()).count();
        let reserved_now: usize = self.reserved.lock().unwrap().iter().map(|v| v.len()).sum();
        let drops_q = drops_snapshot();
        // capacity probe: with everything consumed and released, exactly BUFFER_SIZE sends must be accepted
        let mut probe = -1i64;
        if self.probe >= 0 && !frozen && self.drain && !not_complete_blocks(not_complete) {
            let items: Vec<_> = self.held.lock().unwrap().iter_mut().filter_map(|x| x.take()).collect();
            drop(items);
            probe = 0;
            for k in 0..(self.probe + 2) {
                if api.send(990_000 + k as u64) {
                    probe += 1;
                } else {
                    break;
                }
            }
        }
        json!({"hard": false, "not_complete": not_complete, "frozen": frozen, "pending": pending, "running": running, "open": open,
               "live": live, "left": left, "held": held_now, "reserved": reserved_now, "drained": !frozen && self.drain,
               "probe": probe, "probe_expected": self.probe, "drops_at_quiescence": drops_q})
    }

    fn after_finish(&self, obs: &mut Value, hard: bool) {
        // tear the channel down: streams first, then whatever handles are still held, then the channel itself
        let frozen = self.frozen.load(SeqCst);
        let before = drops_snapshot();
        if hard || frozen {
            // somebody is stuck (or suspended for ever) inside the channel: nothing can be destroyed safely
            let api = self.api.lock().unwrap().take();
            std::mem::forget(api);
            let st: Vec<_> = self.streams.lock().unwrap().drain(..).collect();
            std::mem::forget(st);
            let h: Vec<_> = self.held.lock().unwrap().drain(..).collect();
            std::mem::forget(h);
        } else {
            // handles must not outlive their channel (stated assumption of C05): release them first
            let h: Vec<_> = self.held.lock().unwrap().drain(..).collect();
            drop(h);
            let st: Vec<_> = self.streams.lock().unwrap().drain(..).collect();
            drop(st);
            let api = self.api.lock().unwrap().take();
            drop(api);
        }
        if let Some(f) = &self.mmap_file {
            let _ = std::fs::remove_file(f);
        }
        if let Some(o) = obs.as_object_mut() {
            o.insert("drops_before_teardown".into(), before);
            o.insert("drops".into(), drops_snapshot());
            o.insert("anomalies".into(), anomalies_snapshot());
            o.insert("tracked".into(), json!(self.tracked));
            o.insert("torn_down".into(), json!(!(hard || frozen)));
        }
    }
}
