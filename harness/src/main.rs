//! Conformance harness for reactive-mutiny (see /verif/DESIGN.md).
//!
//! usage: rm-verif-harness run <scenarios.ndjson> <traces-out.ndjson> <summary-out.json>
//!
//! Each input line is a scenario; the harness executes it on the real crate under the deterministic
//! scheduler, once per schedule it explores (DFS / random / replayed), and appends every recorded
//! execution to the trace file, each run introduced by a `reset` event.

mod sched;
mod srcmap;
mod suts;
mod freerun;
mod exec_suts;
mod exec_multi;
mod chan_suts;
mod cont_suts;
mod handle_suts;
mod avg_suts;

use sched::*;
use serde_json::{json, Value};
use std::io::{BufRead, Write};
use std::sync::Arc;

/// bumped at every scheduler step and at every phase boundary of a run: the watchdog of `run` mode ends the process (exit status 98,
/// a `HANG` line on stderr) when nothing moves for WATCHDOG_SECS although a run is in progress -- a call into the code under test that
/// never returns outside the scheduler's control (e.g. a spin inside the single-threaded observation at the end of a run)
pub static PROGRESS: std::sync::atomic::AtomicU64 = std::sync::atomic::AtomicU64::new(0);
pub static PHASE: std::sync::Mutex<String> = std::sync::Mutex::new(String::new());
const WATCHDOG_SECS: u64 = 120;

pub fn progress(phase: &str) {
    PROGRESS.fetch_add(1, std::sync::atomic::Ordering::Relaxed);
    if !phase.is_empty() {
        if let Ok(mut p) = PHASE.lock() {
            p.clear();
            p.push_str(phase);
        }
    }
}

fn start_watchdog() {
    std::thread::spawn(|| {
        let mut last = PROGRESS.load(std::sync::atomic::Ordering::Relaxed);
        let mut idle = 0u64;
        loop {
            std::thread::sleep(std::time::Duration::from_secs(5));
            let now = PROGRESS.load(std::sync::atomic::Ordering::Relaxed);
            if now != last {
                last = now;
                idle = 0;
                continue;
            }
            idle += 5;
            if idle >= WATCHDOG_SECS {
                let phase = PHASE.lock().map(|p| p.clone()).unwrap_or_default();
                eprintln!("HANG no progress for {idle} s: {phase}");
                std::process::exit(98);
            }
        }
    });
}

pub trait Sut: Send + Sync {
    /// executes one API-level operation on behalf of the calling logical thread
    fn exec(&self, ctx: &Ctx, op: &Value) -> Value;
    /// fills in arguments that depend on what the calling thread did before (e.g. "the id I allocated last");
    /// called right before the `call` event is recorded
    fn resolve(&self, _t: usize, op: &Value) -> Value {
        op.clone()
    }
    /// single-threaded observation at the end of the run (hooks inactive)
    fn finish(&self, _stalled: bool) -> Value {
        Value::Null
    }
    /// API-level events of what was done while the object was set up (before any thread ran), as (op, result) pairs
    fn prelude(&self) -> Vec<(Value, Value)> {
        vec![]
    }
    /// last chance to tear things down and add what that showed to the observation (`hard`: a thread is stuck inside the code under test)
    fn after_finish(&self, _obs: &mut Value, _hard: bool) {}
}

pub struct RunOut {
    pub result: RunResult,
    pub final_obs: Value,
}

fn run_once(scn: &Value, strategy: &mut dyn Strategy, record_ops: bool) -> RunOut {
    let threads = scn["threads"].as_array().expect("threads");
    let names: Vec<String> = threads.iter().map(|t| t["name"].as_str().unwrap_or("t").to_string()).collect();
    let origin = scn["origin"].as_u64().unwrap_or(0) as u32;
    progress(&format!("scenario {}: setting up", scn["id"].as_str().unwrap_or("?")));
    reactive_mutiny::verif::set_sequence_origin(origin);
    let sut = suts::make_sut(scn);
    reactive_mutiny::verif::set_sequence_origin(0);
    let sched = Sched::new(&names, record_ops);
    for (op, res) in sut.prelude() {
        let name = op["op"].as_str().unwrap_or("?").to_string();
        sched.record(json!({"k":"call","t":0,"fn":name,"fld":"","o":"","a":0,"b":0,"r":0,"ok":true,"obj":0,"x":op}));
        sched.record(json!({"k":"ret","t":0,"fn":name,"fld":"","o":"","a":0,"b":0,"r":0,"ok":true,"obj":0,"x":res}));
    }
    let mut handles = vec![];
    for (t, th) in threads.iter().enumerate() {
        let ops: Vec<Value> = th["ops"].as_array().cloned().unwrap_or_default();
        let sut = Arc::clone(&sut);
        handles.push(sched.spawn(t, move |ctx| {
            for op in ops.iter() {
                let op = &sut.resolve(ctx.t, op);
                let name = op["op"].as_str().unwrap_or("?").to_string();
                ctx.call(&name, op.clone());
                let r = sut.exec(ctx, op);
                ctx.ret(&name, r);
            }
        }));
    }
    let max_steps = scn["max_steps"].as_u64().unwrap_or(2000);
    let result = sched.run(strategy, max_steps, handles);
    let hard = matches!(result.outcome, Outcome::Stalled | Outcome::StepLimit);
    progress(&format!("scenario {}: single-threaded observation / teardown at the end of a run (schedule {:?})", scn["id"].as_str().unwrap_or("?"), result.choices));
    let final_obs = if hard {
        // some thread is stuck inside the code under test: its state cannot be touched safely any more
        let mut obs = json!({"hard": true, "len": 0, "drained": [], "free": []});
        sut.after_finish(&mut obs, true);
        std::mem::forget(sut);
        obs
    } else {
        let mut obs = std::panic::catch_unwind(std::panic::AssertUnwindSafe(|| sut.finish(!matches!(result.outcome, Outcome::Complete)))).unwrap_or_else(|_| json!({"hard": false, "panic": true}));
        let _ = std::panic::catch_unwind(std::panic::AssertUnwindSafe(|| sut.after_finish(&mut obs, false)));
        // the SUT is dropped here, on the controller thread, with hooks inactive
        drop(sut);
        obs
    };
    progress("between runs");
    RunOut { result, final_obs }
}

fn outcome_name(o: &Outcome) -> &'static str {
    match o {
        Outcome::Complete => "complete",
        Outcome::Quiescent => "quiescent",
        Outcome::Stalled => "stalled",
        Outcome::StepLimit => "steplimit",
    }
}

struct Writer {
    out: std::io::BufWriter<std::fs::File>,
    meta: std::io::BufWriter<std::fs::File>,
    origin: u64,
    pre_streams: u64,
    record_ops: bool,
    runs: u64,
    events: u64,
}

impl Writer {
    fn write_run(&mut self, scn_id: &str, run_no: u64, out: &RunOut) {
        let r = &out.result;
        let finals: Vec<Value> = r.finals.iter().map(|(n, s, p)| json!({"name": n, "status": format!("{:?}", s), "pending": p})).collect();
        let reset = json!({"k":"reset","t":-1,"fn":"","fld":"","o":"","a":0,"b":0,"r":0,"ok":true,"obj":0,
                           "x": {"scn": scn_id, "run": run_no, "origin": self.origin % crate::sched::LOG_MOD, "outcome": outcome_name(&r.outcome), "streams": self.pre_streams, "ops": self.record_ops}});
        writeln!(self.out, "{}", reset).unwrap();
        // side-car with what is needed to replay / explain the run (not read by TLC)
        let meta = json!({"scn": scn_id, "run": run_no, "line": self.events + 1, "outcome": outcome_name(&r.outcome), "choices": r.choices,
                          "finals": finals, "diverged": r.diverged.map(|d| d as i64).unwrap_or(-1), "final": out.final_obs});
        writeln!(self.meta, "{}", meta).unwrap();
        for ev in r.events.iter() {
            writeln!(self.out, "{}", ev).unwrap();
        }
        let fin = json!({"k":"final","t":-1,"fn":"","fld":"","o":"","a":0,"b":0,"r":0,"ok":true,"obj":0,"x": out.final_obs});
        writeln!(self.out, "{}", fin).unwrap();
        self.runs += 1;
        self.events += r.events.len() as u64 + 2;
    }
}

fn explore(scn: &Value, w: &mut Writer, summary: &mut Vec<Value>) {
    let scn_id = scn["id"].as_str().unwrap_or("scn").to_string();
    w.origin = scn["origin"].as_u64().unwrap_or(0);
    w.pre_streams = scn["pre_streams"].as_array().map(|a| a.len() as u64).unwrap_or(0);
    let ex = &scn["explore"];
    let mode = ex["mode"].as_str().unwrap_or("dfs");
    let record_ops = scn["record_ops"].as_bool().unwrap_or(true);
    w.record_ops = record_ops;
    let mut runs = 0u64;
    let mut stalled = 0u64;
    let mut steplimit = 0u64;
    let mut diverged = 0u64;
    let mut max_len = 0usize;
    let mut exhausted = false;
    let mut distinct = std::collections::HashSet::new();
    match mode {
        "dfs" => {
            let bound = ex["bound"].as_u64().map(|b| b as usize);
            let max_runs = ex["max_runs"].as_u64().unwrap_or(20000);
            let mut prefix: Vec<usize> = vec![];
            loop {
                let mut st = DfsPrefix { prefix: prefix.clone(), bound };
                let out = run_once(scn, &mut st, record_ops);
                runs += 1;
                match out.result.outcome {
                    Outcome::Stalled => stalled += 1,
                    Outcome::StepLimit => steplimit += 1,
                    _ => {}
                }
                max_len = max_len.max(out.result.choices.len());
                distinct.insert(out.result.choices.clone());
                w.write_run(&scn_id, runs, &out);
                // backtrack: the deepest step that still has an untried alternative
                let taken = &out.result.taken;
                let branching = &out.result.branching;
                let mut i = taken.len();
                let mut next: Option<Vec<usize>> = None;
                while i > 0 {
                    i -= 1;
                    if taken[i] + 1 < branching[i] {
                        let mut p = taken[..i].to_vec();
                        p.push(taken[i] + 1);
                        next = Some(p);
                        break;
                    }
                }
                match next {
                    Some(p) => prefix = p,
                    None => {
                        exhausted = true;
                        break;
                    }
                }
                if runs >= max_runs {
                    break;
                }
            }
        }
        "random" => {
            let n = ex["runs"].as_u64().unwrap_or(100);
            let seed = ex["seed"].as_u64().unwrap_or(1);
            let stay = ex["stay"].as_u64().unwrap_or(50);
            for i in 0..n {
                let mut st = Random { rng: Xorshift((seed.wrapping_mul(0x9E3779B97F4A7C15).wrapping_add(i + 1) << 1) | 1), stay };
                // warm the generator
                st.rng.next();
                let out = run_once(scn, &mut st, record_ops);
                runs += 1;
                match out.result.outcome {
                    Outcome::Stalled => stalled += 1,
                    Outcome::StepLimit => steplimit += 1,
                    _ => {}
                }
                max_len = max_len.max(out.result.choices.len());
                distinct.insert(out.result.choices.clone());
                w.write_run(&scn_id, runs, &out);
            }
        }
        "replay" => {
            for sch in ex["schedules"].as_array().cloned().unwrap_or_default() {
                let choices: Vec<usize> = sch.as_array().unwrap().iter().map(|v| v.as_u64().unwrap() as usize).collect();
                let mut st = Replay { choices, diverged_at: None };
                let out = run_once(scn, &mut st, record_ops);
                runs += 1;
                if out.result.diverged.is_some() {
                    diverged += 1;
                }
                match out.result.outcome {
                    Outcome::Stalled => stalled += 1,
                    Outcome::StepLimit => steplimit += 1,
                    _ => {}
                }
                max_len = max_len.max(out.result.choices.len());
                distinct.insert(out.result.choices.clone());
                w.write_run(&scn_id, runs, &out);
            }
        }
        other => panic!("unknown explore mode {other}"),
    }
    summary.push(json!({"id": scn_id, "mode": mode, "runs": runs, "distinct_schedules": distinct.len(), "stalled": stalled, "steplimit": steplimit,
                        "diverged": diverged, "max_schedule_len": max_len, "exhausted": exhausted}));
}

fn main() {
    let args: Vec<String> = std::env::args().collect();
    if args.len() < 2 {
        eprintln!("usage: {} run <scenarios.ndjson> <traces.ndjson> <summary.json> | free <spec.json> <out.ndjson> | exec <cases.ndjson> <out.ndjson>", args[0]);
        std::process::exit(2);
    }
    match args[1].as_str() {
        "run" => {
            start_watchdog();
            let input = std::fs::File::open(&args[2]).expect("scenarios file");
            let out = std::fs::File::create(&args[3]).expect("trace file");
            let meta = std::fs::File::create(format!("{}.runs", &args[3])).expect("runs file");
            let mut w = Writer { out: std::io::BufWriter::new(out), meta: std::io::BufWriter::new(meta), origin: 0, pre_streams: 0, record_ops: true, runs: 0, events: 0 };
            let mut summary = vec![];
            for line in std::io::BufReader::new(input).lines() {
                let line = line.unwrap();
                if line.trim().is_empty() {
                    continue;
                }
                let scn: Value = serde_json::from_str(&line).expect("scenario json");
                explore(&scn, &mut w, &mut summary);
            }
            w.out.flush().unwrap();
            w.meta.flush().unwrap();
            let s = json!({"runs": w.runs, "events": w.events, "scenarios": summary});
            std::fs::write(&args[4], serde_json::to_string_pretty(&s).unwrap()).unwrap();
        }
        "free" => freerun::main(&args[2], &args[3]),
        "exec" => exec_suts::main(&args[2], &args[3]),
        other => {
            eprintln!("unknown command {other}");
            std::process::exit(2);
        }
    }
}
