//! Deterministic scheduler over OS threads.
//!
//! Every logical thread is an OS thread; exactly one of them runs between two scheduling points.
//! Scheduling points are: every shimmed atomic operation / yield point of the crate under test
//! (`reactive_mutiny::verif` hook), the start of every API-level operation (`Ctx::call`) and
//! explicit harness yields.  The global order of events is the grant order -- no wall clock.

use reactive_mutiny::verif::{self, Hook, OpInfo, OpKind};
use serde_json::{json, Value};
use std::cell::RefCell;
use std::collections::HashMap;
use std::panic::{self, AssertUnwindSafe};
use std::sync::{Arc, Condvar, Mutex, Once};
use std::task::{RawWaker, RawWakerVTable, Waker};

use crate::srcmap;

#[derive(Clone, PartialEq, Eq, Debug)]
struct Sig {
    file: &'static str,
    line: u32,
    addr: usize,
    kind: u8,
    a: u64,
    b: u64,
}

#[derive(Clone, Copy, PartialEq, Eq, Debug)]
pub enum Status {
    New,
    Waiting,
    Running,
    Parked,
    Done,
    /// blocked inside the code under test when the run was torn down: the OS thread is parked forever
    Leaked,
}

struct TState {
    name: String,
    status: Status,
    notified: bool,
    window: Vec<Sig>,
    window_failed: bool,
    blocked_at: Option<u64>,
    /// description of what the thread is waiting to do (for stall reports)
    pending: String,
    /// the parked task never wants to be resumed (used for "never resumed" suspensions)
    frozen: bool,
    /// the thread is inside a timed sleep of a polling loop of the code under test (`flush`, `end_all_streams`, ...): it goes on only
    /// after some other thread has taken a step (value = number of steps granted when it went to sleep) -- or when nobody else can run
    sleeping: Option<u64>,
    /// consecutive times the sleeper was resumed although nobody else had run, and the write counter at the first of them
    idle_wakes: u32,
    idle_gw: u64,
    /// times the sleeper was resumed while other threads could still run (bounded: beyond that its timer fires only when everybody else
    /// is blocked, parked or done -- otherwise an unfair schedule could keep a polling loop and a task it wakes busy for ever)
    early_wakes: u32,
}

pub struct Inner {
    threads: Vec<TState>,
    current: Option<usize>,
    pub events: Vec<Value>,
    global_writes: u64,
    abort: bool,
    abort_hard: bool,
    steps: u64,
    addr_ids: HashMap<usize, usize>,
    last_thread: Option<usize>,
}

pub struct Sched {
    inner: Mutex<Inner>,
    cv: Condvar,
    pub record_ops: bool,
}

struct AbortToken;

thread_local! {
    static LT: RefCell<Option<(Arc<Sched>, usize)>> = const { RefCell::new(None) };
}

struct GlobalHook;

impl Hook for GlobalHook {
    fn before(&self, op: &OpInfo) {
        let lt = LT.with(|lt| lt.borrow().clone());
        if let Some((s, t)) = lt {
            s.before(t, op);
        }
    }
    fn after(&self, op: &OpInfo, result: u64, ok: bool) {
        let lt = LT.with(|lt| lt.borrow().clone());
        if let Some((s, t)) = lt {
            s.after(t, op, result, ok);
        }
    }
}

/// A scheduling point inside code the harness hands to the crate under test (a payload's destructor, a setter): when the calling
/// OS thread is a logical thread of a running scenario the controller may switch threads here; otherwise (controller thread,
/// tear-down) it is a no-op.
pub fn yield_here(tag: &str) {
    let lt = LT.with(|lt| lt.borrow().clone());
    if let Some((s, t)) = lt {
        s.yield_to_controller(t, format!("yield {tag}"), None);
    }
}

static INSTALL: Once = Once::new();

pub fn install() {
    INSTALL.call_once(|| {
        verif::install_hook(Box::new(GlobalHook));
        // silence the default panic message for our abort tokens and for panics of the code under test
        let default = panic::take_hook();
        panic::set_hook(Box::new(move |info| {
            if info.payload().downcast_ref::<AbortToken>().is_some() {
                return;
            }
            if LT.with(|lt| lt.borrow().is_some()) {
                return; // panic inside a controlled thread: it is data, reported in the trace
            }
            default(info);
        }));
    });
}

fn kind_code(k: OpKind) -> u8 {
    match k {
        OpKind::Load => 0,
        OpKind::Store => 1,
        OpKind::Swap => 2,
        OpKind::FetchAdd => 3,
        OpKind::FetchSub => 4,
        OpKind::CompareExchange => 5,
        OpKind::CompareExchangeWeak => 5,
        OpKind::Yield => 6,
    }
}

fn kind_name(k: OpKind) -> &'static str {
    match k {
        OpKind::Load => "ld",
        OpKind::Store => "st",
        OpKind::Swap => "sw",
        OpKind::FetchAdd => "fa",
        OpKind::FetchSub => "fs",
        OpKind::CompareExchange => "cas",
        OpKind::CompareExchangeWeak => "cas",
        OpKind::Yield => "y",
    }
}

/// values are logged modulo 2^20 so that they fit TLC's 32-bit integers; the specs reduce them further
pub const LOG_MOD: u64 = 1 << 20;

pub enum Outcome {
    /// every thread ran to completion
    Complete,
    /// nothing can run and the only unfinished threads are tasks parked by the harness (waiting for a wake)
    Quiescent,
    /// nothing can run and some thread is blocked (spinning) inside the code under test
    Stalled,
    StepLimit,
}

pub struct RunResult {
    pub events: Vec<Value>,
    pub choices: Vec<usize>,
    /// number of options offered at each step (for DFS backtracking)
    pub branching: Vec<usize>,
    /// index (within the offered options) taken at each step
    pub taken: Vec<usize>,
    pub outcome: Outcome,
    /// per thread: (name, final status, pending description)
    pub finals: Vec<(String, Status, String)>,
    pub diverged: Option<usize>,
}

pub trait Strategy {
    /// `options` are thread ids, the first being the thread that ran last (when still runnable)
    fn choose(&mut self, step: usize, options: &[usize]) -> usize;
    fn preemption_bound(&self) -> Option<usize> {
        None
    }
    fn diverged(&self) -> Option<usize> {
        None
    }
}

pub struct Ctx {
    pub sched: Arc<Sched>,
    pub t: usize,
    /// the task's waker: always the same object, so `Waker::will_wake` holds between two polls (as with a real executor)
    pub task_waker: Waker,
}

#[derive(Debug)]
pub struct Aborted;

impl Sched {
    pub fn new(names: &[String], record_ops: bool) -> Arc<Self> {
        install();
        Arc::new(Sched {
            inner: Mutex::new(Inner {
                threads: names
                    .iter()
                    .map(|n| TState {
                        name: n.clone(),
                        status: Status::New,
                        notified: false,
                        window: vec![],
                        window_failed: false,
                        blocked_at: None,
                        pending: String::new(),
                        frozen: false,
                        sleeping: None,
                        idle_wakes: 0,
                        idle_gw: 0,
                        early_wakes: 0,
                    })
                    .collect(),
                current: None,
                events: vec![],
                global_writes: 0,
                abort: false,
                abort_hard: false,
                steps: 0,
                addr_ids: HashMap::new(),
                last_thread: None,
            }),
            cv: Condvar::new(),
            record_ops,
        })
    }

    /// blocks the calling logical thread until the controller grants it the next step
    fn yield_to_controller(&self, t: usize, pending: String, sig: Option<Sig>) {
        let mut g = self.inner.lock().unwrap();
        if g.abort {
            return;
        }
        {
            let gw = g.global_writes;
            let th = &mut g.threads[t];
            if let Some(sig) = &sig {
                if th.window_failed && th.window.contains(sig) {
                    // re-executing an operation already executed since the last write by anybody,
                    // after a failed compare-exchange: a spin loop -- block until somebody writes
                    th.blocked_at = Some(gw);
                    th.window.clear();
                    th.window_failed = false;
                }
            }
            th.status = Status::Waiting;
            th.pending = pending;
        }
        g.current = None;
        self.cv.notify_all();
        loop {
            g = self.cv.wait(g).unwrap();
            if g.abort {
                // never unwind through the code under test (its destructors may spin on a lock that
                // a torn-down thread holds): leak this OS thread instead
                g.threads[t].status = Status::Leaked;
                self.cv.notify_all();
                drop(g);
                loop {
                    std::thread::park();
                }
            }
            if g.current == Some(t) {
                break;
            }
        }
        g.threads[t].status = Status::Running;
        g.threads[t].blocked_at = None;
    }

    fn before(&self, t: usize, op: &OpInfo) {
        let sig = Sig { file: op.caller.file(), line: op.caller.line(), addr: op.addr, kind: kind_code(op.kind), a: op.a, b: op.b };
        let pending = format!("{}:{} {}", op.caller.file(), op.caller.line(), kind_name(op.kind));
        self.yield_to_controller(t, pending, Some(sig));
    }

    fn after(&self, t: usize, op: &OpInfo, result: u64, ok: bool) {
        let mut g = self.inner.lock().unwrap();
        if g.abort {
            return;
        }
        let is_write = match op.kind {
            OpKind::Load => false,
            OpKind::CompareExchange | OpKind::CompareExchangeWeak => ok,
            // a swap / store that leaves the value as it was (a spin lock found taken) changes nothing
            OpKind::Swap => result != op.a,
            _ => true,
        };
        let ok = ok && !(op.kind == OpKind::Swap && result == op.a && op.a != 0);
        if is_write {
            g.global_writes += 1;
            for th in g.threads.iter_mut() {
                th.window.clear();
                th.window_failed = false;
            }
        } else {
            let sig = Sig { file: op.caller.file(), line: op.caller.line(), addr: op.addr, kind: kind_code(op.kind), a: op.a, b: op.b };
            let th = &mut g.threads[t];
            th.window.push(sig);
            if !ok {
                th.window_failed = true;
            }
        }
        if self.record_ops {
            let n = g.addr_ids.len();
            let obj = if op.addr == 0 { 0 } else { *g.addr_ids.entry(op.addr).or_insert(n + 1) };
            let (func, field) = srcmap::lookup(op.caller.file(), op.caller.line(), op.caller.column());
            let fld = if op.kind == OpKind::Yield { op.tag.to_string() } else { field };
            let ev = json!({
                "k": "op", "t": t, "fn": func, "fld": fld, "o": kind_name(op.kind),
                "a": (op.a % LOG_MOD), "b": (op.b % LOG_MOD), "r": (result % LOG_MOD), "ok": ok, "obj": obj,
                "x": "",
            });
            g.events.push(ev);
        }
    }

    /// records an API-level (L1) event
    pub fn record(&self, ev: Value) {
        let mut g = self.inner.lock().unwrap();
        if g.abort {
            return;
        }
        g.events.push(ev);
    }

    fn reset_window(&self, t: usize) {
        let mut g = self.inner.lock().unwrap();
        let th = &mut g.threads[t];
        th.window.clear();
        th.window_failed = false;
    }

    fn finish(&self, t: usize) {
        let mut g = self.inner.lock().unwrap();
        g.threads[t].status = Status::Done;
        if g.current == Some(t) || !g.abort {
            g.current = None;
        }
        self.cv.notify_all();
    }

    /// Spawns logical thread `t`; it does not run until the controller grants its first step
    pub fn spawn<F: FnOnce(&Ctx) + Send + 'static>(self: &Arc<Self>, t: usize, body: F) -> std::thread::JoinHandle<()> {
        let sched = Arc::clone(self);
        {
            let mut g = self.inner.lock().unwrap();
            g.threads[t].status = Status::Waiting;
            g.threads[t].pending = "start".into();
        }
        std::thread::Builder::new()
            .stack_size(1 << 20)
            .spawn(move || {
                LT.with(|lt| *lt.borrow_mut() = Some((Arc::clone(&sched), t)));
                let ctx = Ctx { sched: Arc::clone(&sched), t, task_waker: make_waker(&sched, t) };
                // wait for the first grant
                let started = {
                    let mut g = sched.inner.lock().unwrap();
                    loop {
                        if g.abort {
                            break false;
                        }
                        if g.current == Some(t) {
                            g.threads[t].status = Status::Running;
                            break true;
                        }
                        g = sched.cv.wait(g).unwrap();
                    }
                };
                if started {
                    verif::set_thread_active(true);
                    let r = panic::catch_unwind(AssertUnwindSafe(|| body(&ctx)));
                    verif::set_thread_active(false);
                    if let Err(p) = r {
                        if p.downcast_ref::<AbortToken>().is_none() {
                            let msg = if let Some(s) = p.downcast_ref::<&str>() {
                                s.to_string()
                            } else if let Some(s) = p.downcast_ref::<String>() {
                                s.clone()
                            } else {
                                "panic".to_string()
                            };
                            sched.record(json!({"k":"panic","t":t,"fn":"","fld":"","o":"","a":0,"b":0,"r":0,"ok":true,"obj":0,"x":msg}));
                        }
                    }
                }
                LT.with(|lt| *lt.borrow_mut() = None);
                sched.finish(t);
            })
            .unwrap()
    }

    /// The controller: grants steps according to `strategy` until every thread is done, nothing can run, or `max_steps`
    pub fn run(self: &Arc<Self>, strategy: &mut dyn Strategy, max_steps: u64, handles: Vec<std::thread::JoinHandle<()>>) -> RunResult {
        let mut choices = vec![];
        let mut branching = vec![];
        let mut taken = vec![];
        let mut preemptions = 0usize;
        let outcome;
        loop {
            let mut g = self.inner.lock().unwrap();
            while g.current.is_some() {
                g = self.cv.wait(g).unwrap();
            }
            let gw = g.global_writes;
            let steps_now = g.steps;
            crate::progress("");
            let mut runnable: Vec<usize> = vec![];
            for (i, th) in g.threads.iter().enumerate() {
                let ok = match th.status {
                    Status::Waiting => th.blocked_at.map(|b| gw > b).unwrap_or(true) && th.sleeping.map(|s| steps_now > s && th.early_wakes < 2).unwrap_or(true),
                    Status::Parked => th.notified && !th.frozen,
                    _ => false,
                };
                if ok {
                    runnable.push(i);
                }
            }
            if runnable.is_empty() {
                // nobody but sleepers: their timers fire.  A sleeper that keeps waking up with nothing changed (no write by anybody since it
                // first did) is a polling loop that will never end: it stays asleep, and the run ends as stalled
                for (i, th) in g.threads.iter_mut().enumerate() {
                    if th.status == Status::Waiting && th.sleeping.is_some() && th.blocked_at.is_none() {
                        if th.idle_wakes == 0 {
                            th.idle_gw = gw;
                        }
                        if th.idle_wakes >= 3 && th.idle_gw == gw {
                            continue;
                        }
                        if th.idle_gw != gw {
                            th.idle_wakes = 0;
                            th.idle_gw = gw;
                        }
                        th.idle_wakes += 1;
                        runnable.push(i);
                    }
                }
            } else {
                for th in g.threads.iter_mut() {
                    if th.sleeping.is_some() && th.sleeping.map(|s| steps_now > s).unwrap_or(false) {
                        th.idle_wakes = 0;
                    }
                }
            }
            if runnable.is_empty() {
                outcome = if g.threads.iter().all(|t| t.status == Status::Done) {
                    Outcome::Complete
                } else if g.threads.iter().all(|t| t.status == Status::Done || t.status == Status::Parked) {
                    Outcome::Quiescent
                } else {
                    Outcome::Stalled
                };
                break;
            }
            if g.steps >= max_steps {
                outcome = Outcome::StepLimit;
                break;
            }
            // the thread that ran last goes first, so option 0 means "no preemption"
            let last = g.last_thread;
            let mut options = runnable.clone();
            let mut last_runnable = false;
            if let Some(l) = last {
                if let Some(pos) = options.iter().position(|&x| x == l) {
                    options.remove(pos);
                    options.insert(0, l);
                    last_runnable = true;
                }
            }
            if let Some(bound) = strategy.preemption_bound() {
                if last_runnable && preemptions >= bound {
                    options.truncate(1);
                }
            }
            let step = choices.len();
            let idx = strategy.choose(step, &options).min(options.len() - 1);
            let t = options[idx];
            if last_runnable && idx != 0 {
                preemptions += 1;
            }
            choices.push(t);
            branching.push(options.len());
            taken.push(idx);
            g.steps += 1;
            g.last_thread = Some(t);
            g.current = Some(t);
            self.cv.notify_all();
        }
        // collect & tear down
        let (events, finals) = {
            let mut g = self.inner.lock().unwrap();
            g.abort = true;
            g.abort_hard = matches!(outcome, Outcome::Stalled | Outcome::StepLimit);
            self.cv.notify_all();
            let finals = g.threads.iter().map(|t| (t.name.clone(), t.status, if t.blocked_at.is_some() { format!("spin@{}", t.pending) } else { t.pending.clone() })).collect();
            (std::mem::take(&mut g.events), finals)
        };
        // wait until every thread either finished or leaked itself; join the finished ones only
        let statuses: Vec<Status> = {
            let mut g = self.inner.lock().unwrap();
            while !g.threads.iter().all(|t| t.status == Status::Done || t.status == Status::Leaked) {
                g = self.cv.wait(g).unwrap();
            }
            g.threads.iter().map(|t| t.status).collect()
        };
        for (h, st) in handles.into_iter().zip(statuses) {
            if st == Status::Done {
                let _ = h.join();
            }
        }
        RunResult { events, choices, branching, taken, outcome, finals, diverged: strategy.diverged() }
    }

    fn notify_task(&self, t: usize) {
        let mut g = self.inner.lock().unwrap();
        if g.abort {
            return;
        }
        g.threads[t].notified = true;
        g.global_writes += 1;
        for th in g.threads.iter_mut() {
            th.window.clear();
            th.window_failed = false;
        }
    }
}

impl Ctx {
    /// Scheduling point marking the start of an API-level operation; records the `call` event
    pub fn call(&self, op: &str, args: Value) {
        self.sched.reset_window(self.t);
        self.sched.yield_to_controller(self.t, format!("call {op}"), None);
        self.sched.record(json!({"k":"call","t":self.t,"fn":op,"fld":"","o":"","a":0,"b":0,"r":0,"ok":true,"obj":0,"x":args}));
    }

    /// Records the `ret` event of the API-level operation in progress (same step as its last access)
    pub fn ret(&self, op: &str, res: Value) {
        self.sched.reset_window(self.t);
        self.sched.record(json!({"k":"ret","t":self.t,"fn":op,"fld":"","o":"","a":0,"b":0,"r":0,"ok":true,"obj":0,"x":res}));
    }

    /// Records a free-form harness event (same step)
    pub fn note(&self, kind: &str, x: Value) {
        self.sched.record(json!({"k":kind,"t":self.t,"fn":"","fld":"","o":"","a":0,"b":0,"r":0,"ok":true,"obj":0,"x":x}));
    }

    /// A plain scheduling point inside harness code (e.g. inside a setter closure)
    pub fn yield_now(&self, tag: &str) {
        self.sched.yield_to_controller(self.t, format!("yield {tag}"), None);
    }

    /// Clears the sticky notification (to be done right before polling, as an executor does)
    pub fn clear_notified(&self) {
        let mut g = self.sched.inner.lock().unwrap();
        g.threads[self.t].notified = false;
    }

    pub fn is_notified(&self) -> bool {
        let g = self.sched.inner.lock().unwrap();
        g.threads[self.t].notified
    }

    /// Parks the calling task until its waker is invoked (returns at once if it already was)
    pub fn park(&self) -> Result<(), Aborted> {
        let sched = &self.sched;
        let t = self.t;
        let mut g = sched.inner.lock().unwrap();
        if g.abort {
            return Err(Aborted);
        }
        g.threads[t].status = Status::Parked;
        g.threads[t].pending = "parked".into();
        g.current = None;
        sched.cv.notify_all();
        loop {
            g = sched.cv.wait(g).unwrap();
            if g.abort {
                if g.abort_hard {
                    // some other thread is stuck inside the code under test: do not run any destructor
                    g.threads[t].status = Status::Leaked;
                    sched.cv.notify_all();
                    drop(g);
                    loop {
                        std::thread::park();
                    }
                }
                return Err(Aborted);
            }
            if g.current == Some(t) {
                break;
            }
        }
        g.threads[t].status = Status::Running;
        Ok(())
    }

    /// The calling thread is about to sleep inside a polling loop of the code under test (a `tokio::time::sleep` of `flush` / `end_stream` /
    /// `end_all_streams`): a scheduling point after which the thread runs again only once some other thread has taken a step, or when
    /// nobody else can run (the timer fires).  If the run is torn down meanwhile the OS thread is parked forever (the code under test
    /// is never unwound).
    pub fn sleep_point(&self) {
        let sched = &self.sched;
        let t = self.t;
        let mut g = sched.inner.lock().unwrap();
        if g.abort {
            return;
        }
        let steps = g.steps;
        g.threads[t].sleeping = Some(steps);
        g.threads[t].status = Status::Waiting;
        g.threads[t].pending = "sleep (polling loop)".into();
        g.threads[t].window.clear();
        g.threads[t].window_failed = false;
        g.current = None;
        sched.cv.notify_all();
        loop {
            g = sched.cv.wait(g).unwrap();
            if g.abort {
                g.threads[t].status = Status::Leaked;
                sched.cv.notify_all();
                drop(g);
                loop {
                    std::thread::park();
                }
            }
            if g.current == Some(t) {
                break;
            }
        }
        g.threads[t].status = Status::Running;
        g.threads[t].sleeping = None;
        let others = g.threads.iter().enumerate().any(|(i, th)| i != t && match th.status {
            Status::Waiting => th.blocked_at.is_none() && th.sleeping.is_none(),
            Status::Parked => th.notified && !th.frozen,
            _ => false,
        });
        if others {
            g.threads[t].early_wakes += 1;
        }
    }

    /// Parks forever (the task is never resumed within the run)
    pub fn freeze(&self) -> Result<(), Aborted> {
        {
            let mut g = self.sched.inner.lock().unwrap();
            g.threads[self.t].frozen = true;
        }
        self.park()
    }

    /// A waker that marks this task as notified (tokio-like sticky notification) and counts the wakes
    pub fn waker(&self) -> Waker {
        self.task_waker.clone()
    }
}

fn make_waker(sched: &Arc<Sched>, t: usize) -> Waker {
    let data = Arc::new(WakerData { sched: Arc::clone(sched), t });
    unsafe { Waker::from_raw(RawWaker::new(Arc::into_raw(data) as *const (), &VTABLE)) }
}

struct WakerData {
    sched: Arc<Sched>,
    t: usize,
}

static VTABLE: RawWakerVTable = RawWakerVTable::new(w_clone, w_wake, w_wake_by_ref, w_drop);

unsafe fn w_clone(p: *const ()) -> RawWaker {
    Arc::increment_strong_count(p as *const WakerData);
    RawWaker::new(p, &VTABLE)
}
unsafe fn w_wake(p: *const ()) {
    w_wake_by_ref(p);
    w_drop(p);
}
unsafe fn w_wake_by_ref(p: *const ()) {
    let d = &*(p as *const WakerData);
    // who is waking?
    let waker_thread = LT.with(|lt| lt.borrow().as_ref().map(|(_, t)| *t));
    d.sched.record(json!({"k":"wake","t":waker_thread.map(|t| t as i64).unwrap_or(-1),"fn":"","fld":"","o":"","a":d.t,"b":0,"r":0,"ok":true,"obj":0,"x":""}));
    d.sched.notify_task(d.t);
}
unsafe fn w_drop(p: *const ()) {
    drop(Arc::from_raw(p as *const WakerData));
}

// ---------------------------------------------------------------------------------------------
// strategies

pub struct Replay {
    pub choices: Vec<usize>,
    pub diverged_at: Option<usize>,
}

impl Strategy for Replay {
    fn choose(&mut self, step: usize, options: &[usize]) -> usize {
        if step < self.choices.len() {
            if let Some(pos) = options.iter().position(|&t| t == self.choices[step]) {
                return pos;
            }
            if self.diverged_at.is_none() {
                self.diverged_at = Some(step);
            }
        }
        0
    }
    fn diverged(&self) -> Option<usize> {
        self.diverged_at
    }
}

pub struct Xorshift(pub u64);

impl Xorshift {
    pub fn next(&mut self) -> u64 {
        let mut x = self.0;
        x ^= x << 13;
        x ^= x >> 7;
        x ^= x << 17;
        self.0 = x;
        x.wrapping_mul(0x2545F4914F6CDD1D)
    }
    pub fn below(&mut self, n: usize) -> usize {
        (self.next() % n as u64) as usize
    }
}

/// uniform random choice with a bias towards staying on the same thread (`stay` in 0..100)
pub struct Random {
    pub rng: Xorshift,
    pub stay: u64,
}

impl Strategy for Random {
    fn choose(&mut self, _step: usize, options: &[usize]) -> usize {
        if options.len() == 1 {
            return 0;
        }
        if self.rng.next() % 100 < self.stay {
            0
        } else {
            self.rng.below(options.len())
        }
    }
}

/// follows `prefix` (indices into the offered options), then always option 0
pub struct DfsPrefix {
    pub prefix: Vec<usize>,
    pub bound: Option<usize>,
}

impl Strategy for DfsPrefix {
    fn choose(&mut self, step: usize, _options: &[usize]) -> usize {
        if step < self.prefix.len() {
            self.prefix[step]
        } else {
            0
        }
    }
    fn preemption_bound(&self) -> Option<usize> {
        self.bound
    }
}
