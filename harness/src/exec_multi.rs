//! (C) a Multi over a real channel: listeners with gated pipelines, close / flush_and_cancel_executor, and the
//! log channel's old / new executors with and without the sequential transition.

use crate::chan_suts::Held;
use crate::exec_suts::{err_idx, log_close, log_push, mk_item, Log};
use futures::stream::StreamExt;
use reactive_mutiny::multi::Multi;
use reactive_mutiny::prelude::advanced::*;
use reactive_mutiny::stream_executor::StreamExecutorStats;
use serde_json::{json, Value};
use std::collections::HashMap;
use std::sync::Arc;
use std::time::Duration;
use tokio::sync::Semaphore;

type BoxErr = Box<dyn std::error::Error + Send + Sync>;

fn nums(v: &Value) -> Vec<u64> {
    v.as_array().map(|a| a.iter().map(|x| x.as_u64().unwrap_or(0)).collect()).unwrap_or_default()
}

async fn run_multi<C, D>(c: &Value, log: Log, multi_rt: bool)
where
    C: FullDuplexMultiChannel<ItemType = u64, DerivedItemType = D> + Send + Sync + 'static,
    D: Held + std::fmt::Debug + Send + Sync + 'static,
{
    let t = if multi_rt { Duration::from_millis(2) } else { Duration::from_millis(10) };
    let limit = c["limit"].as_u64().unwrap_or(1) as u32;
    let listeners = c["listeners"].as_u64().unwrap_or(1);
    let events = nums(&c["events"]);
    let old_events = nums(&c["old_events"]);
    let mode = c["mode"].as_str().unwrap_or("close").to_string();
    let sequential = c["sequential"].as_bool().unwrap_or(false);
    let fails = Arc::new(nums(&c["fails"]));
    // one gate per (event, executor)
    let mut gates: HashMap<u64, Arc<Semaphore>> = HashMap::new();
    for v in events.iter().chain(old_events.iter()) {
        for ex in 0..8u64 {
            gates.insert(v * 10 + ex, Arc::new(Semaphore::new(0)));
        }
    }
    for ex in 0..8u64 {
        gates.insert(77 * 10 + ex, Arc::new(Semaphore::new(1)));   // the late event's pipelines are not gated
    }
    let gates = Arc::new(gates);
    let name = format!("rmverif-exec-{}-{}", std::process::id(), c["id"].as_str().unwrap_or("m").replace(|ch: char| !ch.is_alphanumeric(), "_"));
    let multi: Arc<Multi<u64, C, 7, D>> = Arc::new(Multi::new(name.clone()));
    let mk_builder = |ex: u64, log: Log, gates: Arc<HashMap<u64, Arc<Semaphore>>>, fails: Arc<Vec<u64>>| {
        move |st: reactive_mutiny::mutiny_stream::MutinyStream<'static, u64, C, D>| {
            st.map(move |ev| {
                let v = ev.val();
                drop(ev);
                let i = v * 10 + ex;
                mk_item(log.clone(), i, ex, gates[&i].clone(), false, fails.contains(&v))
            })
        }
    };
    let mk_close = |ex: u64, log: Log| {
        move |stats: Arc<dyn StreamExecutorStats + Send + Sync>| async move {
            log_close(&log, ex, &stats);
        }
    };
    let mk_err = |log: Log| {
        move |e: BoxErr| {
            let log = log.clone();
            async move { log_push(&log, "xerr", err_idx(&e), 0, json!({})) }
        }
    };
    if mode == "oldies" {
        for v in old_events.iter() {
            let ok = matches!(multi.send(*v), keen_retry::RetryResult::Ok { .. });
            log_push(&log, "xsend", *v, 0, json!({"ok": ok, "old": true}));
        }
        multi
            .spawn_oldies_executor(limit, sequential, Duration::ZERO, "old", mk_builder(0, log.clone(), Arc::clone(&gates), Arc::clone(&fails)), mk_close(0, log.clone()),
                                   "new", mk_builder(1, log.clone(), Arc::clone(&gates), Arc::clone(&fails)), mk_close(1, log.clone()), mk_err(log.clone()))
            .await
            .expect("spawn_oldies_executor");
        log_push(&log, "xspawned", 0, 0, json!({}));
    } else {
        for ex in 0..listeners {
            multi
                .spawn_executor(limit, Duration::ZERO, format!("L{ex}"), mk_builder(ex, log.clone(), Arc::clone(&gates), Arc::clone(&fails)), mk_err(log.clone()), mk_close(ex, log.clone()))
                .await
                .expect("spawn_executor");
        }
    }
    for v in events.iter() {
        let ok = matches!(multi.send(*v), keen_retry::RetryResult::Ok { .. });
        log_push(&log, "xsend", *v, 0, json!({"ok": ok, "old": false}));
        tokio::time::sleep(t).await;
    }
    tokio::time::sleep(t * 10).await;
    // the new events' gates open first: without the sequential transition they are processed before the old ones
    if mode == "oldies" {
        for v in events.iter() {
            gates[&(v * 10 + 1)].add_permits(1);
        }
        tokio::time::sleep(t * 10).await;
    }
    let (m2, l2, mode2) = (Arc::clone(&multi), log.clone(), mode.clone());
    let closer = tokio::spawn(async move {
        log_push(&l2, "xclosecall", 0, 0, json!({"mode": mode2}));
        let r = if mode2 == "cancel_one" { m2.flush_and_cancel_executor("L0", Duration::ZERO).await } else { m2.close(Duration::ZERO).await };
        log_push(&l2, "xcloseret", 0, 0, json!({"r": r, "pending": m2.pending_items_count()}));
    });
    tokio::time::sleep(if multi_rt { Duration::from_millis(300) } else { Duration::from_secs(10) }).await;
    // optionally the listeners finish one after the other, in the given order, well apart from each other
    for ex in nums(&c["release_order"]) {
        for v in old_events.iter().chain(events.iter()) {
            gates[&(v * 10 + ex)].add_permits(1);
            tokio::time::sleep(t).await;
        }
        tokio::time::sleep(if multi_rt { Duration::from_millis(100) } else { Duration::from_secs(2) }).await;
    }
    for v in old_events.iter().chain(events.iter()) {
        for ex in 0..8u64 {
            gates[&(v * 10 + ex)].add_permits(1);
        }
        tokio::time::sleep(t).await;
    }
    if tokio::time::timeout(if multi_rt { Duration::from_secs(5) } else { Duration::from_secs(300) }, closer).await.is_err() {
        log_push(&log, "xnocloseret", 0, 0, json!({}));
    }
    tokio::time::sleep(t * 20).await;
    if mode == "cancel_one" {
        // the listeners that were not targeted keep receiving
        let v = 77u64;
        let ok = matches!(multi.send(v), keen_retry::RetryResult::Ok { .. });
        log_push(&log, "xsend", v, 0, json!({"ok": ok, "old": false, "late": true}));
        tokio::time::sleep(t * 10).await;
    }
    log_push(&log, "xstate", 0, 0, json!({"running": multi.channel.running_streams_count(), "open": multi.channel.is_channel_open(), "pending": multi.pending_items_count()}));
    let _ = std::fs::remove_file(format!("/tmp/{name}.mmap"));
}

pub async fn run(c: &Value, log: Log, multi_rt: bool) {
    match c["chan"].as_str().unwrap_or("arc_atomic") {
        "arc_atomic" => run_multi::<ChannelMultiArcAtomic<u64, 4, 4>, Arc<u64>>(c, log, multi_rt).await,
        "arc_fullsync" => run_multi::<ChannelMultiArcFullSync<u64, 4, 4>, Arc<u64>>(c, log, multi_rt).await,
        "arc_crossbeam" => run_multi::<ChannelMultiArcCrossbeam<u64, 4, 4>, Arc<u64>>(c, log, multi_rt).await,
        "ogre_atomic" => run_multi::<ChannelMultiOgreArcAtomic<u64, 4, 4>, OgreArc<u64, AllocatorAtomicArray<u64, 4>>>(c, log, multi_rt).await,
        "ogre_fullsync" => run_multi::<ChannelMultiOgreArcFullSync<u64, 4, 4>, OgreArc<u64, AllocatorFullSyncArray<u64, 4>>>(c, log, multi_rt).await,
        "mmap" => run_multi::<ChannelMultiMmapLog<u64, 4>, &'static u64>(c, log, multi_rt).await,
        other => panic!("unknown multi channel {other}"),
    }
}
