--------------------------- MODULE Trace_UniChan ---------------------------
(***************************************************************************)
(* Trace validation of the movable atomic Uni channel against UniChan:      *)
(* every scheduling point of the real code -- the ring's atomic operations   *)
(* with operands and results, the streams manager's yield points, the        *)
(* wakers_lock operations -- must be the next step of the recording thread   *)
(* in UniChan, and what the API returned must be what the model computed.    *)
(* Entry points covered: send, poll (alone or inside a `drive` task),        *)
(* cancel_all_streams, close (gracefully_end_all_streams + is_channel_open + *)
(* running_streams_count), drop of a stream.                                 *)
(***************************************************************************)
EXTENDS UniChan, TraceBase

VARIABLES drv      \* per thread: the drive in progress [on, s, max, got]

tvars == <<uvars, drv, l, bad>>
WV(x) == x % W
NoDrv == [on |-> FALSE, s |-> 0, max |-> 0, got |-> 0]

TraceInit == UInit /\ drv = [p \in Procs |-> NoDrv] /\ TBInit

TReset == /\ Ev.k = "reset"
          /\ ResetTo(WV(Ev.x.origin))
          /\ cpc' = [p \in Procs |-> "idle"] /\ cs' = [p \in Procs |-> 0] /\ cres' = [p \in Procs |-> ""]
          /\ waker' = [s \in Streams |-> FALSE] /\ wlock' = FALSE /\ keep' = [s \in Streams |-> TRUE]
          /\ notified' = [s \in Streams |-> FALSE]
          /\ stats' = [acc |-> 0, rej |-> 0, del |-> 0]
          /\ count' = MaxS /\ vac' = <<>> /\ vlock' = FALSE /\ slock' = FALSE /\ used' = [j \in Streams |-> j] /\ finished' = 0
          /\ cx' = [p \in Procs |-> NoCx]
          /\ drv' = [p \in Procs |-> NoDrv]

Stutter == UNCHANGED <<uvars, drv>>

TCall == /\ Ev.k = "call" /\ ~IsNopCall
         /\ IF Ev.x.op = "send" THEN CallSend(P, Ev.x.v) /\ UNCHANGED drv
            ELSE IF Ev.x.op = "poll" THEN CallPoll(P, Ev.x.s) /\ UNCHANGED drv
            ELSE IF Ev.x.op = "cancel_all" THEN CallCancel(P) /\ UNCHANGED drv
            ELSE IF Ev.x.op = "reserve" THEN CallReserve(P) /\ UNCHANGED drv
            ELSE IF Ev.x.op = "fill" THEN CallFill(P, Ev.x.i + 1, Ev.x.v) /\ UNCHANGED drv
            ELSE IF Ev.x.op = "send_reserved" THEN CallSendReserved(P, Ev.x.i + 1) /\ UNCHANGED drv
            ELSE IF Ev.x.op = "cancel_reserved" THEN CallCancelReserved(P, Ev.x.i + 1) /\ UNCHANGED drv
            ELSE IF Ev.x.op = "close" THEN CallClose(P) /\ UNCHANGED drv
            ELSE IF Ev.x.op = "drop_stream" THEN CallDrop(P, Ev.x.s) /\ UNCHANGED drv
            ELSE IF Ev.x.op = "drive"
            THEN /\ notified' = [notified EXCEPT ![Ev.x.s] = FALSE]           \* the task clears its notification before its first poll
                 /\ drv' = [drv EXCEPT ![P] = [on |-> TRUE, s |-> Ev.x.s, max |-> Ev.x.max, got |-> 0]]
                 /\ UNCHANGED <<vars, cpc, cs, cres, waker, wlock, keep, stats, smv>>
            ELSE Stutter

\* return of a poll made by a drive: an item with more to come -> the notification is cleared right away (before the next poll is called)
TRetPoll ==
    /\ Ev.fn = "poll" /\ cpc[P] = "cret"
    /\ cres[P] = Ev.x.r
    /\ (Ev.x.r = "item") => (reg[P].res.v = Ev.x.v)
    /\ cpc' = [cpc EXCEPT ![P] = "idle"]
    /\ (IF pc[P] = "ret" THEN Ret(P) ELSE UNCHANGED vars)
    /\ stats' = [stats EXCEPT !.del = IF cres[P] = "item" THEN @ + 1 ELSE @]
    /\ UNCHANGED <<cs, cres, waker, wlock, keep, smv>>
    /\ IF drv[P].on /\ Ev.x.r = "item"
       THEN /\ drv' = [drv EXCEPT ![P].got = @ + 1]
            /\ notified' = IF drv[P].got + 1 < drv[P].max THEN [notified EXCEPT ![drv[P].s] = FALSE] ELSE notified
       ELSE UNCHANGED <<drv, notified>>

TRetOther ==
    /\ Ev.fn # "poll"
    /\ IF Ev.fn = "send"
       THEN cpc[P] = "cret" /\ (Ev.x.ok <=> cres[P] = "ok") /\ ChanRet(P) /\ UNCHANGED drv
       ELSE IF Ev.fn = "cancel_all"
       THEN cpc[P] = "cret" /\ ChanRet(P) /\ UNCHANGED drv
       ELSE IF Ev.fn = "reserve"
       THEN cpc[P] = "cret" /\ (Ev.x.ok <=> cres[P] = "reserved") /\ ChanRet(P) /\ UNCHANGED drv
       ELSE IF Ev.fn = "fill"
       THEN cpc[P] = "cret" /\ cres[P] = "filled" /\ ChanRet(P) /\ UNCHANGED drv
       ELSE IF Ev.fn = "send_reserved"
       THEN cpc[P] = "cret" /\ (Ev.x.ok <=> cres[P] = "ok") /\ ChanRet(P) /\ UNCHANGED drv
       ELSE IF Ev.fn = "cancel_reserved"
       THEN cpc[P] = "cret" /\ (Ev.x.ok <=> cres[P] = "cancelled") /\ ChanRet(P) /\ UNCHANGED drv
       ELSE IF Ev.fn = "close"       \* what the real code answered is what the model computed
       THEN /\ cpc[P] = "cret" /\ cres[P] = "closed"
            /\ Ev.x.v = cx[P].left /\ Ev.x.running = cx[P].run /\ (Ev.x.open <=> cx[P].open)
            /\ ChanRet(P) /\ UNCHANGED drv
       ELSE IF Ev.fn = "drop_stream"
       THEN cpc[P] = "cret" /\ cres[P] = "dropped" /\ ChanRet(P) /\ UNCHANGED drv
       ELSE IF Ev.fn = "drive"
       THEN drv' = [drv EXCEPT ![P] = NoDrv] /\ UNCHANGED uvars
       ELSE Stutter

TRet == Ev.k = "ret" /\ ~IsNopRet /\ (TRetPoll \/ TRetOther)

RingOp ==
  \/ IsOp("leak_slot_internal", "enqueuer_tail", "fa") /\ WV(Ev.r) = etail /\ pc[P] = "E1"
  \/ IsOp("leak_slot_internal", "head", "ld") /\ WV(Ev.r) = head /\ pc[P] = "E2"
  \/ IsOp("try_unleak_slot_internal", "enqueuer_tail", "cas") /\ Ev.ok /\ WV(Ev.b) = reg[P].slot /\ pc[P] = "E3" /\ etail = Add(reg[P].slot, 1)
  \/ IsOp("try_unleak_slot_internal", "enqueuer_tail", "cas") /\ ~Ev.ok /\ WV(Ev.r) = etail /\ pc[P] = "E3" /\ etail # Add(reg[P].slot, 1)
  \/ IsOp("try_publish_leaked_internal", "tail", "cas") /\ Ev.ok /\ WV(Ev.a) = reg[P].slot /\ pc[P] = "E5" /\ tail = reg[P].slot
  \/ IsOp("try_publish_leaked_internal_index", "tail", "cas") /\ Ev.ok /\ WV(Ev.a) = reg[P].slot /\ pc[P] = "P1" /\ tail = reg[P].slot
  \/ IsOp("try_publish_leaked_internal_index", "tail", "cas") /\ ~Ev.ok /\ WV(Ev.r) = tail /\ WV(Ev.a) = reg[P].slot /\ pc[P] = "P1" /\ tail # reg[P].slot
  \/ IsOp("try_publish_leaked_internal_index", "head", "ld") /\ WV(Ev.r) = head /\ pc[P] = "P2"
  \/ IsOp("try_unleak_slot_index_internal", "enqueuer_tail", "cas") /\ Ev.ok /\ WV(Ev.b) = reg[P].slot /\ pc[P] = "U1" /\ etail = Add(reg[P].slot, 1)
  \/ IsOp("try_unleak_slot_index_internal", "enqueuer_tail", "cas") /\ ~Ev.ok /\ WV(Ev.r) = etail /\ WV(Ev.b) = reg[P].slot /\ pc[P] = "U1" /\ etail # Add(reg[P].slot, 1)
  \/ IsOp("consume_leaking_internal", "dequeuer_head", "fa") /\ WV(Ev.r) = dhead /\ pc[P] = "D1"
  \/ IsOp("consume_leaking_internal", "tail", "ld") /\ WV(Ev.r) = tail /\ pc[P] = "D2"
  \/ IsOp("consume_leaking_internal", "dequeuer_head", "cas") /\ Ev.ok /\ WV(Ev.b) = reg[P].slot /\ pc[P] = "D3" /\ dhead = Add(reg[P].slot, 1)
  \/ IsOp("consume_leaking_internal", "dequeuer_head", "cas") /\ ~Ev.ok /\ WV(Ev.r) = dhead /\ pc[P] = "D3" /\ dhead # Add(reg[P].slot, 1)
  \/ IsOp("release_leaked_internal", "head", "cas") /\ Ev.ok /\ WV(Ev.a) = reg[P].slot /\ pc[P] = "D4" /\ head = reg[P].slot

SpinOp ==   \* a publication / release / lock attempt before its turn: nothing changes
  \/ IsOp("try_publish_leaked_internal", "tail", "cas") /\ ~Ev.ok /\ pc[P] = "E5" /\ tail # reg[P].slot
  \/ IsOp("release_leaked_internal", "head", "cas") /\ ~Ev.ok /\ pc[P] = "D4" /\ head # reg[P].slot
  \/ Ev.k = "op" /\ Ev.o = "cas" /\ ~Ev.ok /\ cpc[P] \in {"W2", "R2", "XW2", "FW2", "P1"} /\ wlock
  \/ Ev.k = "op" /\ Ev.o = "cas" /\ ~Ev.ok /\ cpc[P] = "P5" /\ vlock
  \/ Ev.k = "op" /\ Ev.o = "cas" /\ ~Ev.ok /\ cpc[P] = "Y1" /\ slock

IsLockCas == Ev.k = "op" /\ Ev.o = "cas" /\ Ev.ok /\ Ev.a = 0 /\ Ev.b = 1
IsUnlockSt == Ev.k = "op" /\ Ev.o = "st" /\ Ev.a = 0

TOp ==
  \/ RingOp /\ ChanRing(P) /\ UNCHANGED drv
  \/ SpinOp /\ Stutter
  \/ IsY("wake_stream", "sm.wake.peek") /\ (WakePeek(P) \/ CancelWakePeek(P) \/ CloseWakePeek(P)) /\ UNCHANGED drv
  \/ Ev.fn = "wake_stream" /\ IsLockCas /\ (WakeLock(P) \/ CancelWakeLock(P) \/ CloseWakeLock(P)) /\ UNCHANGED drv
  \/ Ev.fn = "wake_stream" /\ IsUnlockSt /\ (WakeUnlock(P) \/ CancelWakeUnlock(P) \/ CloseWakeUnlock(P)) /\ UNCHANGED drv
  \/ IsY("keep_stream_running", "sm.keep.read") /\ (KeepRead(P) \/ CloseOpenRead(P)) /\ UNCHANGED drv
  \/ IsOp("available_elements_count", "tail", "ld") /\ WV(Ev.r) = tail /\ CloseLenTail(P) /\ UNCHANGED drv
  \/ IsOp("available_elements_count", "head", "ld") /\ WV(Ev.r) = head /\ CloseLenHead(P) /\ UNCHANGED drv
  \/ IsOp("running_streams_count", "used_streams_count", "ld") /\ Ev.r = count /\ (CloseRunLoad(P) \/ CloseRunRet(P) \/ CloseRunning(P)) /\ UNCHANGED drv
  \/ Ev.fn = "report_stream_dropped" /\ Ev.fld = "wakers_lock" /\ IsLockCas /\ DropWLock(P) /\ UNCHANGED drv
  \/ Ev.fn = "report_stream_dropped" /\ Ev.fld = "wakers_lock" /\ IsUnlockSt /\ DropWUnlock(P) /\ UNCHANGED drv
  \/ IsOp("report_stream_dropped", "finished_streams_count", "fa") /\ Ev.r = finished /\ DropCountA(P) /\ UNCHANGED drv
  \/ IsOp("report_stream_dropped", "used_streams_count", "fs") /\ Ev.r = count /\ DropCountB(P) /\ UNCHANGED drv
  \/ Ev.fld = "concurrency_guard" /\ IsLockCas /\ DropVPush(P) /\ UNCHANGED drv
  \/ Ev.fld = "concurrency_guard" /\ IsUnlockSt /\ DropVUnlock(P) /\ UNCHANGED drv
  \/ Ev.fld = "streams_lock" /\ IsLockCas /\ SyncLock(P) /\ UNCHANGED drv
  \/ IsY("sync_vacant_and_used_streams", "sm.used.write") /\ SyncWrite(P) /\ UNCHANGED drv
  \/ Ev.fld = "streams_lock" /\ IsUnlockSt /\ SyncUnlock(P) /\ UNCHANGED drv
  \/ IsY("register_stream_waker", "sm.waker.peek") /\ WakerPeek(P) /\ UNCHANGED drv
  \/ Ev.fn = "register_stream_waker" /\ IsLockCas /\ WakerLock(P) /\ UNCHANGED drv
  \/ Ev.fn = "register_stream_waker" /\ IsUnlockSt /\ WakerUnlock(P) /\ UNCHANGED drv
  \/ IsY("cancel_all_streams", "sm.used.read") /\ CancelNext(P) /\ UNCHANGED drv
  \/ IsY("cancel_stream", "sm.keep.clear") /\ CancelClear(P) /\ UNCHANGED drv

TNote == \/ Ev.k = "unpark" /\ drv[P].on /\ notified[drv[P].s]
            /\ notified' = [notified EXCEPT ![drv[P].s] = FALSE] /\ UNCHANGED <<vars, cpc, cs, cres, waker, wlock, keep, stats, smv, drv>>
         \/ Ev.k = "park" /\ drv[P].on /\ cres[P] = "pending" /\ Stutter
         \/ Ev.k = "slept" /\ CloseSlept(P) /\ UNCHANGED drv
         \/ Ev.k \in {"wake", "suspended", "panic", "final"} /\ Stutter

BadOf == IF ~InvLinearizable THEN "InvLinearizable"
         ELSE IF ~InvBounds THEN "InvBounds"
         ELSE IF ~InvWakersLock THEN "InvWakersLock"
         ELSE IF ~InvSmLocks THEN "InvSmLocks"
         ELSE ""

TraceNext == /\ l <= Len(Rec)
             /\ l' = l + 1
             /\ IF Skipping
                THEN UNCHANGED <<uvars, drv, bad>>
                ELSE /\ (((IsNopCall \/ IsNopRet) /\ Stutter) \/ TReset \/ TCall \/ TRet \/ TOp \/ TNote)
                     /\ bad' = Worst(EvBad, BadOf')
                     /\ NoteBad(bad')

TraceSpec == TraceInit /\ [][TraceNext]_tvars
=============================================================================
