------------------------------ MODULE SpinStack ------------------------------
(***************************************************************************)
(* L2 specification of the atomic-flag stack                                *)
(* (/repo/src/ogre_std/ogre_stacks/non_blocking_atomic_stack.rs): a spin    *)
(* flag taken with swap(true), plain accesses to `head` and `buffer` inside *)
(* the critical region (one action per access, as delimited by the verif    *)
(* yield points), released with store(false).                               *)
(* L1 oracle: LinQueue in "lifo" mode (C18).                                *)
(***************************************************************************)
EXTENDS Integers, Sequences, FiniteSets, TLC

CONSTANTS N, Procs

VARIABLES flag, head, buf, pc, reg, cands, pend
svars == <<flag, head, buf>>
vars  == <<flag, head, buf, pc, reg, cands, pend>>

LQ == INSTANCE LinQueue WITH LqThreads <- Procs, LqCap <- N, LqRelaxEmpty <- FALSE, LqMode <- "lifo"

NoReg == [v |-> 0, res |-> [ok |-> FALSE, v |-> 0], op |-> [op |-> "none", v |-> 0]]

Init == /\ flag = FALSE /\ head = 0 /\ buf = [i \in 0..N-1 |-> 0]
        /\ pc = [p \in Procs |-> "idle"]
        /\ reg = [p \in Procs |-> NoReg]
        /\ cands = LQ!LqInit0
        /\ pend = LQ!LqNoPend

Reset == /\ flag' = FALSE /\ head' = 0 /\ buf' = [i \in 0..N-1 |-> 0]
         /\ pc' = [p \in Procs |-> "idle"]
         /\ reg' = [p \in Procs |-> NoReg]
         /\ cands' = LQ!LqInit0
         /\ pend' = LQ!LqNoPend

MonOp(o) == IF o.op = "push" THEN [op |-> "enq", v |-> o.v] ELSE IF o.op = "pop" THEN [op |-> "deq", v |-> 0] ELSE LQ!NoOp

Call(p, o) ==
    /\ pc[p] = "idle"
    /\ pc' = [pc EXCEPT ![p] = IF o.op = "push" THEN "P1" ELSE "Q1"]
    /\ reg' = [reg EXCEPT ![p].op = o]
    /\ pend' = [pend EXCEPT ![p] = MonOp(o)]
    /\ cands' = LQ!LqCall(cands, pend, p, MonOp(o), 0)
    /\ UNCHANGED svars

Ret(p) ==
    /\ pc[p] = "ret"
    /\ pc' = [pc EXCEPT ![p] = "idle"]
    /\ pend' = [pend EXCEPT ![p] = LQ!NoOp]
    /\ cands' = IF reg[p].op.op = "push" THEN LQ!LqRet(cands, pend, p, [ok |-> reg[p].res.ok, v |-> 0], 0)
                ELSE LQ!LqRet(cands, pend, p, reg[p].res, 0)
    /\ reg' = [reg EXCEPT ![p].op = [op |-> "none", v |-> 0]]
    /\ UNCHANGED svars

\* flag.swap(true) finding it free; the fullness / emptiness test is made in the same step
PushSwapOk(p) ==
    /\ pc[p] = "P1" /\ ~flag
    /\ flag' = TRUE
    /\ pc' = [pc EXCEPT ![p] = IF head >= N THEN "PF" ELSE "P2"]
    /\ UNCHANGED <<head, buf, reg, cands, pend>>
PushWrite(p) ==
    /\ pc[p] = "P2"
    /\ buf' = [buf EXCEPT ![head] = reg[p].op.v]
    /\ pc' = [pc EXCEPT ![p] = "P3"]
    /\ UNCHANGED <<flag, head, reg, cands, pend>>
PushHead(p) ==
    /\ pc[p] = "P3"
    /\ head' = head + 1
    /\ pc' = [pc EXCEPT ![p] = "P4"]
    /\ UNCHANGED <<flag, buf, reg, cands, pend>>
PushUnlock(p) ==
    /\ pc[p] \in {"P4", "PF"}
    /\ flag' = FALSE
    /\ reg' = [reg EXCEPT ![p].res = [ok |-> (pc[p] = "P4"), v |-> 0]]
    /\ pc' = [pc EXCEPT ![p] = "ret"]
    /\ UNCHANGED <<head, buf, cands, pend>>

PopSwapOk(p) ==
    /\ pc[p] = "Q1" /\ ~flag
    /\ flag' = TRUE
    /\ pc' = [pc EXCEPT ![p] = IF head = 0 THEN "QF" ELSE "Q2"]
    /\ UNCHANGED <<head, buf, reg, cands, pend>>
PopHead(p) ==
    /\ pc[p] = "Q2"
    /\ head' = head - 1
    /\ pc' = [pc EXCEPT ![p] = "Q3"]
    /\ UNCHANGED <<flag, buf, reg, cands, pend>>
PopRead(p) ==
    /\ pc[p] = "Q3"
    /\ reg' = [reg EXCEPT ![p].v = buf[head]]
    /\ pc' = [pc EXCEPT ![p] = "Q4"]
    /\ UNCHANGED <<svars, cands, pend>>
PopUnlock(p) ==
    /\ pc[p] \in {"Q4", "QF"}
    /\ flag' = FALSE
    /\ reg' = [reg EXCEPT ![p].res = IF pc[p] = "Q4" THEN [ok |-> TRUE, v |-> reg[p].v] ELSE [ok |-> FALSE, v |-> 0]]
    /\ pc' = [pc EXCEPT ![p] = "ret"]
    /\ UNCHANGED <<head, buf, cands, pend>>

Step(p) == \/ PushSwapOk(p) \/ PushWrite(p) \/ PushHead(p) \/ PushUnlock(p)
           \/ PopSwapOk(p) \/ PopHead(p) \/ PopRead(p) \/ PopUnlock(p) \/ Ret(p)

InCrit(p) == pc[p] \in {"P2", "P3", "P4", "PF", "Q2", "Q3", "Q4", "QF"}
InvMutex == Cardinality({p \in Procs : InCrit(p)}) <= 1 /\ (flag <=> \E p \in Procs : InCrit(p))
InvBounds == head \in 0..N
InvLinearizable == cands # {}
ActualS == [i \in 1..head |-> buf[i - 1]]
AllIdle == \A p \in Procs : pc[p] = "idle"
InvContents == AllIdle => LQ!LqAgrees(cands, ActualS)
=============================================================================
