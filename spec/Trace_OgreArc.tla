--------------------------- MODULE Trace_OgreArc ---------------------------
(***************************************************************************)
(* Trace validation of the real OgreArc / OgreUnique handles: every          *)
(* operation on the reference counter recorded from the real code must be    *)
(* the next step of OgreArc (L2) -- with its operand and the value it found  *)
(* -- and the API-level results must satisfy the L1 rules of C14:            *)
(*   dereference = creation value; reported count = live shared handles      *)
(*   when nothing is in flight; destroyed exactly when the last handle goes. *)
(* One pooled value per run; handles are names.                              *)
(***************************************************************************)
EXTENDS OgreArc, TraceBase

VARIABLES val, uniq, checks    \* creation value; name of a (not yet converted) unique handle or ""; ghost: destroyed flag reported so far
tvars == <<vars, val, uniq, checks, l, bad>>

TraceInit == Init /\ val = 0 /\ uniq = "" /\ checks = FALSE /\ TBInit
Stutter == UNCHANGED <<vars, val, uniq, checks>>

TReset == /\ Ev.k = "reset"
          /\ refs' = 0 /\ live' = {} /\ freed' = FALSE /\ ctl' = "alive"
          /\ pc' = [p \in Procs |-> "idle"] /\ reg' = [p \in Procs |-> NoReg]
          /\ val' = 0 /\ uniq' = "" /\ checks' = FALSE

SeqNames(a) == [i \in 1..Len(a) |-> a[i]]
TCall == /\ Ev.k = "call" /\ ~IsNopCall
         /\ UNCHANGED <<val, checks>>
         /\ \/ Ev.x.op = "new" /\ Create({Ev.x.to}) /\ UNCHANGED <<pc, reg, uniq>>
            \/ Ev.x.op = "new2" /\ Create({Ev.x.to, Ev.x.to2}) /\ UNCHANGED <<pc, reg, uniq>>
            \/ Ev.x.op = "newu" /\ Create({Ev.x.to}) /\ uniq' = Ev.x.to /\ UNCHANGED <<pc, reg>>
            \/ Ev.x.op = "clone" /\ CallClone(P, Ev.x.from, Ev.x.to) /\ UNCHANGED uniq
            \/ Ev.x.op = "incr" /\ CallIncr(P, Ev.x.from, SeqNames(Ev.x.tos)) /\ UNCHANGED uniq
            \/ Ev.x.op = "drop" /\ CallDrop(P, Ev.x.h) /\ UNCHANGED uniq
            \/ Ev.x.op = "refs" /\ CallRefs(P, Ev.x.h) /\ UNCHANGED uniq
            \/ Ev.x.op \in {"deref", "into_arc"} /\ UNCHANGED <<vars, uniq>>

\* a unique handle has no counter: its drop deallocates directly
UniqueDrop == reg[P].op = "drop" /\ reg[P].h = uniq /\ uniq # ""

TOp ==
  \/ IsOp("clone", "references_count", "fa") /\ Ev.a = 1 /\ Ev.r = refs /\ CloneFA(P) /\ UNCHANGED <<val, uniq, checks>>
  \/ IsOp("increment_references", "references_count", "fa") /\ Ev.a = Len(reg[P].to) /\ Ev.r = refs /\ CloneFA(P) /\ UNCHANGED <<val, uniq, checks>>
  \/ IsOp("drop", "references_count", "fs") /\ Ev.r = refs /\ DropFS(P) /\ UNCHANGED <<val, uniq, checks>>
  \/ IsOp("references_count", "references_count", "ld") /\ Ev.r = refs /\ RefsLoad(P) /\ UNCHANGED <<val, uniq, checks>>
  \* the pool's free list (shimmed too) is a different component: its events are not steps of this spec
  \/ Ev.k = "op" /\ Ev.fld \notin {"references_count"} /\ Stutter

TRet == /\ Ev.k = "ret" /\ ~IsNopRet
        /\ \/ /\ Ev.fn \in {"new", "new2", "newu"}
              /\ val' = Ev.x.v /\ UNCHANGED <<vars, uniq, checks>>
           \/ /\ Ev.fn = "into_arc"
              /\ uniq' = "" /\ UNCHANGED <<vars, val, checks>>
           \/ /\ Ev.fn = "deref" /\ UNCHANGED <<vars, val, uniq, checks>>
           \/ /\ Ev.fn = "drop"
              /\ IF UniqueDrop
                 THEN /\ pc[P] = "D1" /\ refs' = 0 /\ freed' = TRUE /\ ctl' = "freed" /\ uniq' = ""
                      /\ pc' = [pc EXCEPT ![P] = "idle"] /\ reg' = [reg EXCEPT ![P] = NoReg] /\ UNCHANGED live
                 ELSE /\ pc[P] \in {"D2", "ret"}
                      /\ freed' = (freed \/ pc[P] = "D2") /\ ctl' = IF pc[P] = "D2" THEN "freed" ELSE ctl
                      /\ pc' = [pc EXCEPT ![P] = "idle"] /\ reg' = [reg EXCEPT ![P] = NoReg]
                      /\ UNCHANGED <<refs, live, uniq>>
              /\ checks' = Ev.x.destroyed /\ UNCHANGED val
           \/ /\ Ev.fn \in {"clone", "incr", "refs"}
              /\ pc[P] = "ret" /\ pc' = [pc EXCEPT ![P] = "idle"] /\ reg' = [reg EXCEPT ![P] = NoReg]
              /\ UNCHANGED <<refs, live, freed, ctl, val, uniq, checks>>

TFinal == Ev.k = "final" /\ Stutter
TOther == Ev.k \in {"panic", "wake", "park", "unpark"} /\ Stutter

\* ---- L1 verdicts (evaluated on the event, in the state before it)
Quiescent == \A p \in Procs : pc[p] = "idle"
EvBadH ==
    IF Ev.k = "ret" /\ Ev.fn = "deref" /\ Ev.x.v # Ev.x.expected THEN "InvDerefValue"
    ELSE IF Ev.k = "ret" /\ Ev.fn = "refs" /\ (\A p \in Procs \ {P} : pc[p] = "idle") /\ uniq = "" /\ Ev.x.v # Cardinality(live) THEN "InvRefCount"
    ELSE IF Ev.k = "ret" /\ Ev.fn = "drop" /\ Ev.x.destroyed /\ (live # {} \/ Cloning # {}) THEN "InvDestroyedWhileHeld"
    ELSE IF Ev.k = "ret" /\ Ev.fn = "drop" /\ Ev.x.dcount > 1 THEN "InvDestroyedAtMostOnce"
    ELSE IF Ev.k = "ret" /\ Ev.fn = "drop" /\ ~Ev.x.destroyed /\ live = {} /\ Cloning = {} /\ (Dropping \ {P}) = {} THEN "InvDestroyedWithLastHandle"
    ELSE IF Ev.k = "ret" /\ Ev.fn = "into_arc" /\ Ev.x.destroyed THEN "InvIntoArcKeepsValue"
    ELSE IF Ev.k = "final" /\ ~Ev.x.hard /\ Len(Ev.x.anomalies) > 0 THEN "InvNoUseAfterFree"
    ELSE IF Ev.k = "final" /\ ~Ev.x.hard /\ Quiescent /\ Ev.x.free # Ev.x.pool - Ev.x.live_values THEN "InvSlotReturnedToPool"
    ELSE IF Ev.k = "final" /\ ~Ev.x.hard /\ (\E i \in 1..Len(Ev.x.drops) : Ev.x.drops[i][2] > 1) THEN "InvDestroyedAtMostOnce"
    ELSE EvBad

TraceNext == /\ l <= Len(Rec)
             /\ l' = l + 1
             /\ IF Skipping
                THEN UNCHANGED <<vars, val, uniq, checks, bad>>
                ELSE /\ (((IsNopCall \/ IsNopRet) /\ Stutter) \/ TReset \/ TCall \/ TOp \/ TRet \/ TFinal \/ TOther)
                     /\ bad' = EvBadH
                     /\ NoteBad(bad')

TraceSpec == TraceInit /\ [][TraceNext]_tvars
=============================================================================
