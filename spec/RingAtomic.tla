----------------------------- MODULE RingAtomic -----------------------------
(***************************************************************************)
(* L2 (implementation-shaped) specification of `AtomicMove`                 *)
(* (/repo/src/ogre_std/ogre_queues/atomic/atomic_move.rs): one action per   *)
(* atomic operation.  Counters are integers modulo W (2^32 in the code).    *)
(* Also the `NonBlockingQueue`/pool free-list use of it.                    *)
(*                                                                          *)
(* API-level operations of a thread:                                        *)
(*   enq(v)      publish_movable                                            *)
(*   deq         consume_movable                                            *)
(*   len         available_elements_count (two loads)                       *)
(*   reserve     leak_slot_internal(|| false)                               *)
(*   fill(i,v)   plain write into the i-th slot this thread reserved        *)
(*   pub_idx(i)  try_publish_leaked_internal_index                          *)
(*   unleak_idx(i) try_unleak_slot_index_internal                           *)
(***************************************************************************)
EXTENDS Integers, Sequences, FiniteSets, TLC

CONSTANTS N,              \* BUFFER_SIZE (power of 2)
          W,              \* counter modulus (multiple of N; 2^32 in the code)
          Procs,          \* threads
          Origins,        \* possible initial values of the four counters
          OverflowChecks, \* TRUE: debug build (checked arithmetic panics)
          RelaxEmpty,     \* see LinQueue!LqRelaxEmpty
          Prefill,        \* TRUE: the ring starts holding 0..N-1 (a pool allocator's free list)
          Mode            \* L1 oracle: "fifo" (queue, C02/C18) or "bag" (pool allocator: any free id may be handed out, C13)

VARIABLES head, tail, etail, dhead,   \* the four AtomicU32
          buf,                        \* slot contents, index 0..N-1
          pc, reg,                    \* per thread: program counter / registers
          cands, pend                 \* L1 monitor (LinQueue)

rvars == <<head, tail, etail, dhead, buf>>
vars  == <<head, tail, etail, dhead, buf, pc, reg, cands, pend>>

LQ == INSTANCE LinQueue WITH LqThreads <- Procs, LqCap <- N, LqRelaxEmpty <- RelaxEmpty, LqMode <- Mode

Add(x, k)  == (x + k) % W
Sub(x, y)  == (x - y + W) % W
Signed(d)  == IF d >= W \div 2 THEN d - W ELSE d
Idx(x)     == x % N

NoReg == [slot |-> 0, lenb |-> 0, v |-> 0, idx |-> 0, i |-> 0, res |-> [ok |-> FALSE, v |-> 0], resv |-> <<>>, op |-> [op |-> "none", v |-> 0, i |-> 0]]

TypeOK == /\ head \in 0..W-1 /\ tail \in 0..W-1 /\ etail \in 0..W-1 /\ dhead \in 0..W-1

\* content right after construction: empty, or (Prefill) ids 0..N-1 published from the origin on
Fill0(o) == IF Prefill THEN [i \in 0..N-1 |-> (i + N - Idx(o)) % N] ELSE [i \in 0..N-1 |-> 0]
Tail0(o) == IF Prefill THEN Add(o, N) ELSE o
Cands0   == IF Prefill THEN {[q |-> [i \in 1..N |-> i - 1], done |-> [t \in Procs |-> LQ!NotYet]]} ELSE LQ!LqInit0

Init == /\ \E o \in Origins : head = o /\ tail = Tail0(o) /\ etail = Tail0(o) /\ dhead = o /\ buf = Fill0(o)
        /\ pc = [p \in Procs |-> "idle"]
        /\ reg = [p \in Procs |-> NoReg]
        /\ cands = Cands0
        /\ pend = LQ!LqNoPend

\* (trace validation) a fresh container whose counters start at o
ResetTo(o) == /\ head' = o /\ tail' = Tail0(o) /\ etail' = Tail0(o) /\ dhead' = o /\ buf' = Fill0(o)
              /\ pc' = [p \in Procs |-> "idle"]
              /\ reg' = [p \in Procs |-> NoReg]
              /\ cands' = Cands0
              /\ pend' = LQ!LqNoPend

-----------------------------------------------------------------------------
\* call / return

FirstPc(o) == CASE o = "enq"        -> "E1"
                [] o = "deq"        -> "D1"
                [] o = "len"        -> "L1"
                [] o = "reserve"    -> "E1"
                [] o = "fill"       -> "ret"
                [] o = "pub_idx"    -> "P1"
                [] o = "unleak_idx" -> "U1"

\* monitor view of an operation: publishing a reserved slot is an enqueue of what was written into it;
\* reserving / filling / cancelling are not queue operations, but reserved slots take capacity (Extra)
MonOpP(p, o) == IF o.op \in {"enq", "deq"} THEN [op |-> o.op, v |-> o.v]
                ELSE IF o.op = "pub_idx" THEN [op |-> "enq", v |-> buf[reg[p].resv[o.i]]]
                ELSE LQ!NoOp
RECURSIVE SumResv(_)
SumResv(S) == IF S = {} THEN 0 ELSE LET p == CHOOSE x \in S : TRUE IN Len(reg[p].resv) + SumResv(S \ {p})
Extra == SumResv(Procs)

\* `fill`, and the non-atomic preludes of pub_idx / unleak_idx, happen in the same step as the call
\* (the harness records no separate event for them)
Call(p, o) ==
    /\ pc[p] = "idle"
    /\ (o.op \in {"fill", "pub_idx", "unleak_idx"}) => (o.i \in 1..Len(reg[p].resv))
    /\ pc' = [pc EXCEPT ![p] = FirstPc(o.op)]
    /\ reg' = IF o.op \in {"pub_idx", "unleak_idx"}
              THEN [reg EXCEPT ![p].op = o, ![p].idx = reg[p].resv[o.i], ![p].slot = reg[p].resv[o.i]]
              ELSE IF o.op = "fill"
              THEN [reg EXCEPT ![p].op = o, ![p].res = [ok |-> TRUE, v |-> 0]]
              ELSE [reg EXCEPT ![p].op = o]
    /\ buf' = IF o.op = "fill" THEN [buf EXCEPT ![reg[p].resv[o.i]] = o.v] ELSE buf
    /\ pend' = [pend EXCEPT ![p] = MonOpP(p, o)]
    /\ cands' = LQ!LqCall(cands, pend, p, MonOpP(p, o), Extra)
    /\ UNCHANGED <<head, tail, etail, dhead>>

\* the result the implementation hands back is in reg[p].res
Ret(p) ==
    /\ pc[p] = "ret"
    /\ pc' = [pc EXCEPT ![p] = "idle"]
    /\ pend' = [pend EXCEPT ![p] = LQ!NoOp]
    /\ cands' = IF reg[p].op.op = "enq" THEN LQ!LqRet(cands, pend, p, [ok |-> reg[p].res.ok, v |-> 0], Extra)
                ELSE IF reg[p].op.op = "deq" THEN LQ!LqRet(cands, pend, p, reg[p].res, Extra)
                ELSE IF reg[p].op.op = "pub_idx"
                THEN IF reg[p].res.ok THEN LQ!LqRet(cands, pend, p, [ok |-> TRUE, v |-> 0], Extra) ELSE LQ!LqRetCancel(cands, pend, p, Extra)
                ELSE LQ!LqClose(cands, pend, Extra)
    /\ reg' = [reg EXCEPT ![p].op = [op |-> "none", v |-> 0, i |-> 0]]
    /\ UNCHANGED rvars

-----------------------------------------------------------------------------
\* enqueue: leak_slot_internal + write + publish_leaked_internal

EnqFA(p) ==        \* enqueuer_tail.fetch_add(1)
    /\ pc[p] = "E1"
    /\ reg' = [reg EXCEPT ![p].slot = etail]
    /\ etail' = Add(etail, 1)
    /\ pc' = [pc EXCEPT ![p] = "E2"]
    /\ UNCHANGED <<head, tail, dhead, buf, cands, pend>>

EnqLoadHead(p) ==  \* head.load; len_before = slot_id - head; room => (write the payload; go publish)
    /\ pc[p] = "E2"
    /\ LET lb == Sub(reg[p].slot, head) IN
       IF lb < N
       THEN IF reg[p].op.op = "reserve"
            THEN /\ reg' = [reg EXCEPT ![p].lenb = lb,
                                       ![p].resv = Append(@, Idx(reg[p].slot)),
                                       ![p].res = [ok |-> TRUE, v |-> Idx(reg[p].slot)]]
                 /\ pc' = [pc EXCEPT ![p] = "ret"]
                 /\ UNCHANGED buf
            ELSE /\ reg' = [reg EXCEPT ![p].lenb = lb]
                 /\ buf' = [buf EXCEPT ![Idx(reg[p].slot)] = reg[p].op.v]
                 /\ pc' = [pc EXCEPT ![p] = "E5"]
       ELSE /\ reg' = [reg EXCEPT ![p].lenb = lb]
            /\ pc' = [pc EXCEPT ![p] = "E3"]
            /\ UNCHANGED buf
    /\ UNCHANGED <<head, tail, etail, dhead, cands, pend>>

EnqRecedeOk(p) ==  \* enqueuer_tail CAS(slot+1 -> slot) succeeds: report full
    /\ pc[p] = "E3"
    /\ etail = Add(reg[p].slot, 1)
    /\ etail' = reg[p].slot
    /\ reg' = [reg EXCEPT ![p].res = [ok |-> FALSE, v |-> 0]]
    /\ pc' = [pc EXCEPT ![p] = "ret"]
    /\ UNCHANGED <<head, tail, dhead, buf, cands, pend>>

EnqRecedeFail(p) == \* somebody else reserved after us: re-evaluate
    /\ pc[p] = "E3"
    /\ etail # Add(reg[p].slot, 1)
    /\ pc' = [pc EXCEPT ![p] = "E2"]
    /\ UNCHANGED <<rvars, reg, cands, pend>>

EnqPublish(p) ==   \* tail CAS(slot -> slot+1); spins until it is our turn
    /\ pc[p] = "E5"
    /\ tail = reg[p].slot
    /\ tail' = Add(tail, 1)
    /\ reg' = [reg EXCEPT ![p].res = [ok |-> TRUE, v |-> reg[p].lenb + 1]]   \* len_after = len_before + 1
    /\ pc' = [pc EXCEPT ![p] = "ret"]
    /\ UNCHANGED <<head, etail, dhead, buf, cands, pend>>

-----------------------------------------------------------------------------
\* dequeue: consume_leaking_internal + read + release_leaked_internal

DeqFA(p) ==        \* dequeuer_head.fetch_add(1)
    /\ pc[p] = "D1"
    /\ reg' = [reg EXCEPT ![p].slot = dhead]
    /\ dhead' = Add(dhead, 1)
    /\ pc' = [pc EXCEPT ![p] = "D2"]
    /\ UNCHANGED <<head, tail, etail, buf, cands, pend>>

DeqLoadTail(p) ==  \* tail.load; len_before = (tail - slot) as i32; > 0 => read the payload
    /\ pc[p] = "D2"
    /\ LET lb == Signed(Sub(tail, reg[p].slot)) IN
       IF lb > 0
       THEN /\ reg' = [reg EXCEPT ![p].v = buf[Idx(reg[p].slot)]]
            /\ pc' = [pc EXCEPT ![p] = "D4"]
       ELSE /\ pc' = [pc EXCEPT ![p] = "D3"]
            /\ UNCHANGED reg
    /\ UNCHANGED <<rvars, cands, pend>>

DeqRecedeOk(p) ==  \* dequeuer_head CAS(slot+1 -> slot) succeeds: report empty
    /\ pc[p] = "D3"
    /\ dhead = Add(reg[p].slot, 1)
    /\ dhead' = reg[p].slot
    /\ reg' = [reg EXCEPT ![p].res = [ok |-> FALSE, v |-> 0]]
    /\ pc' = [pc EXCEPT ![p] = "ret"]
    /\ UNCHANGED <<head, tail, etail, buf, cands, pend>>

DeqRecedeFail(p) ==
    /\ pc[p] = "D3"
    /\ dhead # Add(reg[p].slot, 1)
    /\ pc' = [pc EXCEPT ![p] = "D2"]
    /\ UNCHANGED <<rvars, reg, cands, pend>>

DeqRelease(p) ==   \* head CAS(slot -> slot+1); spins until it is our turn
    /\ pc[p] = "D4"
    /\ head = reg[p].slot
    /\ head' = Add(head, 1)
    /\ reg' = [reg EXCEPT ![p].res = [ok |-> TRUE, v |-> reg[p].v]]
    /\ pc' = [pc EXCEPT ![p] = "ret"]
    /\ UNCHANGED <<tail, etail, dhead, buf, cands, pend>>

-----------------------------------------------------------------------------
\* len: available_elements_count = tail.load - head.load

LenLoadTail(p) ==
    /\ pc[p] = "L1"
    /\ reg' = [reg EXCEPT ![p].v = tail]
    /\ pc' = [pc EXCEPT ![p] = "L2"]
    /\ UNCHANGED <<rvars, cands, pend>>

LenLoadHead(p) ==
    /\ pc[p] = "L2"
    /\ reg' = [reg EXCEPT ![p].res = [ok |-> TRUE, v |-> Sub(reg[p].v, head)]]
    /\ pc' = [pc EXCEPT ![p] = "ret"]
    /\ UNCHANGED <<rvars, cands, pend>>

-----------------------------------------------------------------------------
\* try_publish_leaked_internal_index(slot_index)

RemoveAt(s, i) == SubSeq(s, 1, i - 1) \o SubSeq(s, i + 1, Len(s))

PubIdxCasOk(p) ==  \* tail CAS(slot_id -> slot_id+1) succeeds
    /\ pc[p] = "P1"
    /\ tail = reg[p].slot
    /\ tail' = Add(tail, 1)
    /\ reg' = [reg EXCEPT ![p].v = tail]      \* Ok(old tail)
    /\ pc' = [pc EXCEPT ![p] = "P2"]
    /\ UNCHANGED <<head, etail, dhead, buf, cands, pend>>

PubIdxCasFail(p) == \* lap adjustment or give up
    /\ pc[p] = "P1"
    /\ tail # reg[p].slot
    /\ IF tail \div N > reg[p].slot \div N
       THEN /\ reg' = [reg EXCEPT ![p].slot = reg[p].idx + (tail \div N) * N]
            /\ pc' = pc
       ELSE /\ reg' = [reg EXCEPT ![p].res = [ok |-> FALSE, v |-> 0]]
            /\ pc' = [pc EXCEPT ![p] = "ret"]
    /\ UNCHANGED <<rvars, cands, pend>>

PubIdxLoadHead(p) == \* len = max(1, old_tail - head)
    /\ pc[p] = "P2"
    /\ LET l == Sub(reg[p].v, head) IN
       reg' = [reg EXCEPT ![p].res = [ok |-> TRUE, v |-> IF l < 1 THEN 1 ELSE l],
                          ![p].resv = RemoveAt(@, reg[p].op.i)]
    /\ pc' = [pc EXCEPT ![p] = "ret"]
    /\ UNCHANGED <<rvars, cands, pend>>

-----------------------------------------------------------------------------
\* try_unleak_slot_index_internal(slot_index)

UnleakCasOk(p) ==  \* enqueuer_tail CAS(slot_id+1 -> slot_id) succeeds
    /\ pc[p] = "U1"
    /\ etail = Add(reg[p].slot, 1)
    /\ etail' = reg[p].slot
    /\ reg' = [reg EXCEPT ![p].res = [ok |-> TRUE, v |-> 0], ![p].resv = RemoveAt(@, reg[p].op.i)]
    /\ pc' = [pc EXCEPT ![p] = "ret"]
    /\ UNCHANGED <<head, tail, dhead, buf, cands, pend>>

UnleakCasFail(p) == \* `reloaded_enqueuer_tail.wrapping_sub(1) / N > slot_id / N`
    \* (before the repair recorded in known_findings.json -- "fixed: property=C15/C08" -- the subtraction was a checked
    \*  one and panicked for etail = 0 in builds with overflow checks; a panic of the real code is an L1 verdict, NoPanic)
    /\ pc[p] = "U1"
    /\ etail # Add(reg[p].slot, 1)
    /\ LET m1 == Sub(etail, 1) IN
       IF m1 \div N > reg[p].slot \div N
       THEN /\ reg' = [reg EXCEPT ![p].slot = reg[p].idx + (m1 \div N) * N]
            /\ pc' = pc
       ELSE /\ reg' = [reg EXCEPT ![p].res = [ok |-> FALSE, v |-> 0]]
            /\ pc' = [pc EXCEPT ![p] = "ret"]
    /\ UNCHANGED <<rvars, cands, pend>>

-----------------------------------------------------------------------------
Step(p) == \/ EnqFA(p) \/ EnqLoadHead(p) \/ EnqRecedeOk(p) \/ EnqRecedeFail(p) \/ EnqPublish(p)
           \/ DeqFA(p) \/ DeqLoadTail(p) \/ DeqRecedeOk(p) \/ DeqRecedeFail(p) \/ DeqRelease(p)
           \/ LenLoadTail(p) \/ LenLoadHead(p)
           \/ PubIdxCasOk(p) \/ PubIdxCasFail(p) \/ PubIdxLoadHead(p)
           \/ UnleakCasOk(p) \/ UnleakCasFail(p)
           \/ Ret(p)

-----------------------------------------------------------------------------
\* properties of the ring itself

\* never more than N published-and-unreleased items; published <= reserved
InvBounds == /\ Sub(tail, head) <= N
             /\ Signed(Sub(etail, tail)) >= 0

\* L1: the call/return history is explainable by an atomic bounded FIFO queue (C02, C18)
InvLinearizable == cands # {}

NoPanic == \A p \in Procs : pc[p] # "panic"

\* the concrete queue content, oldest first
ActualQ == [i \in 1..Sub(tail, head) |-> buf[Idx(Add(head, i - 1))]]
AllIdle == \A p \in Procs : pc[p] = "idle"
\* whenever no operation is in progress the concrete content is what the atomic queue would hold
InvContents == AllIdle => LQ!LqAgrees(cands, ActualQ)
=============================================================================
