------------------------------ MODULE LinQueue ------------------------------
(***************************************************************************)
(* L1 oracle: on-line linearizability monitor for a bounded FIFO queue      *)
(* with the capacity rule of properties C02 / C16 / C18:                    *)
(*   - every operation takes effect at one instant between call and return  *)
(*   - a dequeue answers "empty" only if the queue is empty at that instant *)
(*   - an enqueue answers "full" only if, at that instant, queued items     *)
(*     plus other enqueues still in progress (plus held / reserved slots,   *)
(*     given by the caller as Extra) take all Cap slots                     *)
(*   - never more than Cap items are queued                                 *)
(*                                                                          *)
(* The monitor state is the set of candidate configurations compatible     *)
(* with the history so far (Wing & Gong style, computed on-line).  The     *)
(* history is linearizable iff the set never becomes empty.                 *)
(***************************************************************************)
EXTENDS Integers, Sequences, FiniteSets

CONSTANTS LqThreads,   \* threads that issue operations
          LqCap,       \* capacity (BUFFER_SIZE)
          LqRelaxEmpty,\* FALSE: the property as stated.  TRUE: additionally tolerate the recorded known finding
                       \* KF-C02-spurious-empty (an "empty" answer given while another dequeue is in progress)
          LqMode       \* "fifo": queue;  "lifo": stack;  "bag": unordered pool (any stored element may be taken)

NotYet == [ok |-> FALSE, v |-> -1]
NoOp   == [op |-> "none", v |-> 0]

LqInit0 == {[q |-> <<>>, done |-> [t \in LqThreads |-> NotYet]]}
LqNoPend == [t \in LqThreads |-> NoOp]

IsSend(o) == o.op = "enq"

\* candidates reachable from c by letting t's pending operation take effect now
LqLin1(c, t, pend, extra) ==
    IF pend[t].op = "none" \/ c.done[t] # NotYet THEN {}
    ELSE IF pend[t].op = "enq" THEN
        \* other sends still in progress: called, not returned, and not (yet) accepted into q
        LET others == Cardinality({u \in LqThreads \ {t} : IsSend(pend[u]) /\ (c.done[u] = NotYet \/ ~c.done[u].ok)})
                      \* plus events taken out of q whose receive has not returned yet ("not yet received")
                      + Cardinality({u \in LqThreads \ {t} : pend[u].op = "deq" /\ c.done[u] # NotYet /\ c.done[u].ok})
            succ == IF Len(c.q) < LqCap
                    THEN {[q |-> Append(c.q, pend[t].v), done |-> [c.done EXCEPT ![t] = [ok |-> TRUE, v |-> 0]]]}
                    ELSE {}
            full == IF Len(c.q) + others + extra >= LqCap
                    THEN {[q |-> c.q, done |-> [c.done EXCEPT ![t] = [ok |-> FALSE, v |-> 0]]]}
                    ELSE {}
        IN succ \cup full
    ELSE IF pend[t].op = "deq" THEN
        LET succ  == IF c.q = <<>> THEN {}
                     ELSE IF LqMode = "fifo"
                     THEN {[q |-> Tail(c.q), done |-> [c.done EXCEPT ![t] = [ok |-> TRUE, v |-> Head(c.q)]]]}
                     ELSE IF LqMode = "lifo"
                     THEN {[q |-> SubSeq(c.q, 1, Len(c.q) - 1), done |-> [c.done EXCEPT ![t] = [ok |-> TRUE, v |-> c.q[Len(c.q)]]]]}
                     ELSE {[q |-> SubSeq(c.q, 1, i - 1) \o SubSeq(c.q, i + 1, Len(c.q)),
                            done |-> [c.done EXCEPT ![t] = [ok |-> TRUE, v |-> c.q[i]]]] : i \in 1..Len(c.q)}
            otherDeq == \E u \in LqThreads \ {t} : pend[u].op = "deq"
            empty == IF c.q = <<>> \/ (LqRelaxEmpty /\ otherDeq)
                     THEN {[q |-> c.q, done |-> [c.done EXCEPT ![t] = [ok |-> FALSE, v |-> 0]]]}
                     ELSE {}
        IN succ \cup empty
    ELSE \* "len" and other queries: answered with the abstract length
        {[q |-> c.q, done |-> [c.done EXCEPT ![t] = [ok |-> TRUE, v |-> Len(c.q)]]]}

LqStep(cs, pend, extra) == cs \cup UNION {LqLin1(c, t, pend, extra) : c \in cs, t \in LqThreads}

\* at most |LqThreads| operations can be pending, so that many rounds reach the fixpoint
RECURSIVE LqCloseN(_, _, _, _)
LqCloseN(cs, pend, extra, n) == IF n = 0 THEN cs ELSE LqCloseN(LqStep(cs, pend, extra), pend, extra, n - 1)
LqClose(cs, pend, extra) == LqCloseN(cs, pend, extra, Cardinality(LqThreads))

\* a call: the operation becomes pending; it (and others) may take effect from now on
LqCall(cs, pend, t, o, extra) == LqClose(cs, [pend EXCEPT ![t] = o], extra)

\* a return with result r (for queries whose answer is not constrained, use LqRetAny)
LqRet(cs, pend, t, r, extra) ==
    LqClose({[c EXCEPT !.done[t] = NotYet] : c \in {c \in cs : c.done[t] = r}}, [pend EXCEPT ![t] = NoOp], extra)

\* an operation that reports "no effect, try again" (e.g. publishing a reserved slot before its turn): it never took effect
LqRetCancel(cs, pend, t, extra) ==
    LqClose({[c EXCEPT !.done[t] = NotYet] : c \in {c \in cs : c.done[t] = NotYet \/ ~c.done[t].ok}}, [pend EXCEPT ![t] = NoOp], extra)

LqRetAny(cs, pend, t, extra) ==
    LqClose({[c EXCEPT !.done[t] = NotYet] : c \in {c \in cs : c.done[t] # NotYet}}, [pend EXCEPT ![t] = NoOp], extra)

\* the queue contents still possible when nothing is pending
LqContents(cs) == {c.q : c \in cs}
\* does the concrete content (a sequence, oldest first) agree with some candidate?  (as a bag for "bag" mode)
BagOf(s) == [v \in {s[i] : i \in 1..Len(s)} |-> Cardinality({i \in 1..Len(s) : s[i] = v})]
LqAgrees(cs, actual) == IF LqMode = "bag" THEN \E c \in cs : BagOf(c.q) = BagOf(actual) ELSE actual \in LqContents(cs)
=============================================================================
