----------------------------- MODULE CloseProto -----------------------------
(***************************************************************************)
(* The graceful-close protocol (`Uni::close` / `Multi::close` ->            *)
(* `end_all_streams` of /repo/src/streams_manager.rs) against one stream    *)
(* driven by a futures executor with a concurrency limit:                   *)
(*   close:    wait until nothing is pending in the channel; cancel all     *)
(*             streams; wait until the running-streams count is zero        *)
(*   executor: polls the stream only while fewer than Limit item futures    *)
(*             are in progress; when the stream ends it is dropped at once  *)
(*             (running-streams count decremented) although item futures    *)
(*             may still be in progress                                     *)
(* C06: close returns only after every accepted event was fully processed.  *)
(* WaitExecutors = TRUE models the candidate repair (close also waits for   *)
(* the executors to report they ended).                                     *)
(***************************************************************************)
EXTENDS Integers, FiniteSets
CONSTANTS Limit, NEvents, WaitExecutors
VARIABLES queued, inflight, processed, cancelled, streamAlive, execEnded, cpc
vars == <<queued, inflight, processed, cancelled, streamAlive, execEnded, cpc>>

Init == /\ queued = NEvents /\ inflight = 0 /\ processed = 0 /\ cancelled = FALSE /\ streamAlive = TRUE /\ execEnded = FALSE /\ cpc = "idle"

\* the executor polls its source (only while it has room for another item future)
Pull == /\ streamAlive /\ inflight < Limit /\ queued > 0
        /\ queued' = queued - 1 /\ inflight' = inflight + 1
        /\ UNCHANGED <<processed, cancelled, streamAlive, execEnded, cpc>>
PollEnd == /\ streamAlive /\ inflight < Limit /\ queued = 0 /\ cancelled
           /\ streamAlive' = FALSE            \* Ready(None): the stream is dropped, the running count goes to zero
           /\ UNCHANGED <<queued, inflight, processed, cancelled, execEnded, cpc>>
Finish == /\ inflight > 0 /\ inflight' = inflight - 1 /\ processed' = processed + 1
          /\ UNCHANGED <<queued, cancelled, streamAlive, execEnded, cpc>>
ExecEnds == /\ ~streamAlive /\ inflight = 0 /\ ~execEnded /\ execEnded' = TRUE
            /\ UNCHANGED <<queued, inflight, processed, cancelled, streamAlive, cpc>>

CloseCalled == cpc = "idle" /\ cpc' = "flush" /\ UNCHANGED <<queued, inflight, processed, cancelled, streamAlive, execEnded>>
CloseFlushed == cpc = "flush" /\ queued = 0 /\ cpc' = "cancel" /\ UNCHANGED <<queued, inflight, processed, cancelled, streamAlive, execEnded>>
CloseCancels == cpc = "cancel" /\ cancelled' = TRUE /\ cpc' = "wait" /\ UNCHANGED <<queued, inflight, processed, streamAlive, execEnded>>
CloseReturns == /\ cpc = "wait" /\ ~streamAlive /\ (WaitExecutors => execEnded)
                /\ cpc' = "returned" /\ UNCHANGED <<queued, inflight, processed, cancelled, streamAlive, execEnded>>
Done == cpc = "returned" /\ execEnded /\ UNCHANGED vars
Next == Pull \/ PollEnd \/ Finish \/ ExecEnds \/ CloseCalled \/ CloseFlushed \/ CloseCancels \/ CloseReturns \/ Done

InvTypes == queued \in 0..NEvents /\ inflight \in 0..Limit /\ processed \in 0..NEvents
InvCloseWaits == cpc = "returned" => processed = NEvents
=============================================================================
