------------------------------ MODULE UniChan ------------------------------
(***************************************************************************)
(* L2 (implementation-shaped) specification of the movable atomic Uni       *)
(* channel, one action per scheduling point of the real code:               *)
(*   /repo/src/uni/channels/movable/atomic.rs    send / consume             *)
(*   /repo/src/ogre_std/ogre_queues/atomic/atomic_move.rs  (= RingAtomic)   *)
(*   /repo/src/streams_manager.rs   wake_stream / keep_stream_running /     *)
(*                                  register_stream_waker / cancel_stream   *)
(*   /repo/src/mutiny_stream.rs     poll_next                               *)
(* and of the executor task that drives a stream (poll; on Pending park     *)
(* until the waker is invoked -- a sticky notification, as tokio's).        *)
(*                                                                          *)
(* The ring underneath is RingAtomic, unchanged: the channel layer takes    *)
(* over when a ring operation has computed its result (pc = "ret") and      *)
(* performs the ring's return step together with its own.                   *)
(*   send:  enqueue; len_after <= MAX_STREAMS -> wake stream len_after-1;   *)
(*          len_after = MAX_STREAMS+1 -> wake stream len_after-2            *)
(*   reserve_slot / (fill) / try_send_reserved / try_cancel_slot_reserve:   *)
(*          the ring's reservation, index-publication and cancel actions;   *)
(*          a published reservation with len_after <= MAX_STREAMS wakes     *)
(*          stream len_after % MAX_STREAMS                                  *)
(*   wake_stream(s): peek wakers[s] without the lock; Some -> wake;         *)
(*          None -> lock, look again (wake if Some), unlock                 *)
(*   poll:  dequeue; nothing -> read keep[s]; FALSE -> dequeue once more    *)
(*          (an event may have come in since), nothing again -> end of      *)
(*          stream;                                                         *)
(*          TRUE -> peek wakers[s]; Some (same waker) -> Pending;           *)
(*          None -> lock, insert, unlock, wake the inserted waker, Pending  *)
(*   cancel_all: for every stream id: keep[id] := FALSE; wake_stream(id)    *)
(*   close  (gracefully_end_all_streams(ZERO) = end_all_streams, then the   *)
(*          caller asks is_channel_open and running_streams_count):         *)
(*          flush: pending := tail.load - head.load; > 0 -> wake every      *)
(*          stream, sleep 1 ms, again;  = 0 -> cancel_all_streams; then     *)
(*          while used_streams_count.load > 0: sleep 1 ms                   *)
(*   drop   (MutinyStream::drop -> report_stream_dropped): wakers[s] :=     *)
(*          None under wakers_lock; finished += 1; used_streams_count -= 1; *)
(*          the id goes back into the vacant queue (under its guard); the   *)
(*          used-streams list is rebuilt entry by entry under streams_lock  *)
(* Properties: C01 (nothing lost / invented), C02 (the LinQueue monitor of  *)
(* RingAtomic, now over the channel's call / return window), C04 (no lost   *)
(* wake-up, safety form), C07 (cancelled streams end), C06 (close returns   *)
(* only after every event accepted before it was yielded and every stream   *)
(* is gone; afterwards the channel is not open).                            *)
(***************************************************************************)
EXTENDS RingAtomic

CONSTANT MaxS            \* MAX_STREAMS; streams 0..MaxS-1 exist from the start, stream s is driven by task thread TaskOf(s)

Streams == 0..MaxS-1

VARIABLES cpc,      \* per thread: where it is in the channel layer
          cs,       \* per thread: the stream it is about to wake / it is polling
          cres,     \* per thread: result of the channel operation in progress ("" | "ok" | "full" | "item" | "pending" | "end")
          waker,    \* per stream: a waker is registered
          wlock,    \* wakers_lock
          keep,     \* keep_streams_running
          notified, \* per stream: the task's sticky notification
          stats,    \* ghost counters
          count,    \* used_streams_count (= running_streams_count())
          vac,      \* vacant_streams: the queue of free stream ids
          vlock,    \* ... and its concurrency_guard
          slock,    \* streams_lock
          used,     \* used_streams: the list of live ids, MAX-terminated
          finished, \* finished_streams_count
          cx        \* per thread: registers of close / drop (sampled tail, list being written, continuation, ghost samples)

smv == <<count, vac, vlock, slock, used, finished, cx>>
cvars == <<cpc, cs, cres, waker, wlock, keep, notified, stats, smv>>
uvars == <<vars, cvars>>

MAX == 99                      \* the u32::MAX sentinel of the used-streams list
NoCx == [t |-> 0, k |-> 0, tgt |-> [j \in Streams |-> MAX], kont |-> "", accAt |-> 0, left |-> 0, open |-> FALSE, run |-> 0]
RECURSIVE SortedSeq(_)
SortedSeq(set) == IF set = {} THEN <<>> ELSE LET m == CHOOSE x \in set : \A y \in set : x <= y IN <<m>> \o SortedSeq(set \ {m})
ListOf(live) == LET ls == SortedSeq(live) IN [i \in Streams |-> IF i + 1 <= Len(ls) THEN ls[i + 1] ELSE MAX]
Elems(q) == {q[i] : i \in 1..Len(q)}

CInit == /\ cpc = [p \in Procs |-> "idle"] /\ cs = [p \in Procs |-> 0] /\ cres = [p \in Procs |-> ""]
         /\ waker = [s \in Streams |-> FALSE] /\ wlock = FALSE /\ keep = [s \in Streams |-> TRUE]
         /\ notified = [s \in Streams |-> FALSE]
         /\ stats = [acc |-> 0, rej |-> 0, del |-> 0]
SInit == /\ count = MaxS /\ vac = <<>> /\ vlock = FALSE /\ slock = FALSE /\ used = [j \in Streams |-> j] /\ finished = 0
         /\ cx = [p \in Procs |-> NoCx]
UInit == Init /\ CInit /\ SInit

\* the ring's operation steps (everything of RingAtomic!Step but the return)
RStep(p) == \/ EnqFA(p) \/ EnqLoadHead(p) \/ EnqRecedeOk(p) \/ EnqRecedeFail(p) \/ EnqPublish(p)
            \/ DeqFA(p) \/ DeqLoadTail(p) \/ DeqRecedeOk(p) \/ DeqRecedeFail(p) \/ DeqRelease(p)
            \/ PubIdxCasOk(p) \/ PubIdxCasFail(p) \/ PubIdxLoadHead(p) \/ UnleakCasOk(p) \/ UnleakCasFail(p)

Wake(s, nf) == [nf EXCEPT ![s] = TRUE]

-----------------------------------------------------------------------------
\* calls
CallSend(p, v) == /\ cpc[p] = "idle"
                  /\ Call(p, [op |-> "enq", v |-> v, i |-> 0])
                  /\ cpc' = [cpc EXCEPT ![p] = "send"] /\ cres' = [cres EXCEPT ![p] = ""]
                  /\ UNCHANGED <<cs, waker, wlock, keep, notified, stats, smv>>
CallPoll(p, s) == /\ cpc[p] = "idle"
                  /\ Call(p, [op |-> "deq", v |-> 0, i |-> 0])
                  /\ cpc' = [cpc EXCEPT ![p] = "poll"] /\ cs' = [cs EXCEPT ![p] = s] /\ cres' = [cres EXCEPT ![p] = ""]
                  /\ UNCHANGED <<waker, wlock, keep, notified, stats, smv>>

\* the reservation API (i: position, from 1, in the calling thread's list of outstanding reservations)
CallReserve(p) == /\ cpc[p] = "idle"
                  /\ Call(p, [op |-> "reserve", v |-> 0, i |-> 0])
                  /\ cpc' = [cpc EXCEPT ![p] = "resv"] /\ cres' = [cres EXCEPT ![p] = ""]
                  /\ UNCHANGED <<cs, waker, wlock, keep, notified, stats, smv>>
CallFill(p, i, v) == /\ cpc[p] = "idle"          \* a plain write into the reserved slot: complete at once
                     /\ Call(p, [op |-> "fill", v |-> v, i |-> i])
                     /\ cpc' = [cpc EXCEPT ![p] = "cret"] /\ cres' = [cres EXCEPT ![p] = "filled"]
                     /\ UNCHANGED <<cs, waker, wlock, keep, notified, stats, smv>>
CallSendReserved(p, i) == /\ cpc[p] = "idle"
                          /\ Call(p, [op |-> "pub_idx", v |-> 0, i |-> i])
                          /\ cpc' = [cpc EXCEPT ![p] = "sendr"] /\ cres' = [cres EXCEPT ![p] = ""]
                          /\ UNCHANGED <<cs, waker, wlock, keep, notified, stats, smv>>
CallCancelReserved(p, i) == /\ cpc[p] = "idle"
                            /\ Call(p, [op |-> "unleak_idx", v |-> 0, i |-> i])
                            /\ cpc' = [cpc EXCEPT ![p] = "cancr"] /\ cres' = [cres EXCEPT ![p] = ""]
                            /\ UNCHANGED <<cs, waker, wlock, keep, notified, stats, smv>>
\* whom try_send_reserved wakes
WakeTargetR(la) == IF la <= MaxS THEN la % MaxS ELSE -1

\* which stream a successful send wakes (the "+1 workaround" of the atomic channel included); -1: nobody
WakeTarget(la) == IF la <= MaxS THEN la - 1 ELSE IF la = MaxS + 1 THEN la - 2 ELSE -1

\* a ring step; when it completes the ring operation, the thread runs on -- within the same scheduling step -- to the next
\* scheduling point of the channel layer
ChanRing(p) ==
    /\ cpc[p] \in {"send", "poll", "poll2", "resv", "sendr", "cancr"} /\ pc[p] # "ret"
    /\ RStep(p)
    /\ IF pc'[p] # "ret"
       THEN UNCHANGED <<cpc, cs, cres>>
       ELSE IF cpc[p] = "resv"
       THEN cres' = [cres EXCEPT ![p] = IF reg'[p].res.ok THEN "reserved" ELSE "full"] /\ cpc' = [cpc EXCEPT ![p] = "cret"] /\ UNCHANGED cs
       ELSE IF cpc[p] = "cancr"
       THEN cres' = [cres EXCEPT ![p] = IF reg'[p].res.ok THEN "cancelled" ELSE "notyet"] /\ cpc' = [cpc EXCEPT ![p] = "cret"] /\ UNCHANGED cs
       ELSE IF cpc[p] = "sendr"
       THEN IF reg'[p].res.ok
            THEN LET w == WakeTargetR(reg'[p].res.v) IN
                 /\ cres' = [cres EXCEPT ![p] = "ok"]
                 /\ IF w >= 0 THEN cpc' = [cpc EXCEPT ![p] = "W1"] /\ cs' = [cs EXCEPT ![p] = w]
                              ELSE cpc' = [cpc EXCEPT ![p] = "cret"] /\ UNCHANGED cs
            ELSE cres' = [cres EXCEPT ![p] = "notyet"] /\ cpc' = [cpc EXCEPT ![p] = "cret"] /\ UNCHANGED cs
       ELSE IF cpc[p] = "send"
       THEN IF reg'[p].res.ok
            THEN LET w == WakeTarget(reg'[p].res.v) IN
                 /\ cres' = [cres EXCEPT ![p] = "ok"]
                 /\ IF w >= 0 THEN cpc' = [cpc EXCEPT ![p] = "W1"] /\ cs' = [cs EXCEPT ![p] = w]
                              ELSE cpc' = [cpc EXCEPT ![p] = "cret"] /\ UNCHANGED cs
            ELSE cres' = [cres EXCEPT ![p] = "full"] /\ cpc' = [cpc EXCEPT ![p] = "cret"] /\ UNCHANGED cs
       ELSE IF reg'[p].res.ok
            THEN cres' = [cres EXCEPT ![p] = "item"] /\ cpc' = [cpc EXCEPT ![p] = "cret"] /\ UNCHANGED cs
            ELSE IF cpc[p] = "poll2"
            THEN cres' = [cres EXCEPT ![p] = "end"] /\ cpc' = [cpc EXCEPT ![p] = "cret"] /\ UNCHANGED cs        \* nothing again: end of stream
            ELSE cpc' = [cpc EXCEPT ![p] = "K1"] /\ UNCHANGED <<cs, cres>>
    /\ UNCHANGED <<waker, wlock, keep, notified, stats, smv>>

-----------------------------------------------------------------------------
\* wake_stream(cs[p])
WakePeek(p) ==      \* yield "sm.wake.peek"; the unsynchronised read of wakers[s]
    /\ cpc[p] = "W1"
    /\ IF waker[cs[p]]
       THEN notified' = Wake(cs[p], notified) /\ cpc' = [cpc EXCEPT ![p] = "cret"]
       ELSE UNCHANGED notified /\ cpc' = [cpc EXCEPT ![p] = "W2"]
    /\ UNCHANGED <<vars, cs, cres, waker, wlock, keep, stats, smv>>
WakeLock(p) ==      \* wakers_lock CAS (spins while taken); second look at wakers[s] under the lock
    /\ cpc[p] = "W2" /\ ~wlock
    /\ wlock' = TRUE
    /\ notified' = IF waker[cs[p]] THEN Wake(cs[p], notified) ELSE notified
    /\ cpc' = [cpc EXCEPT ![p] = "W3"]
    /\ UNCHANGED <<vars, cs, cres, waker, keep, stats, smv>>
WakeUnlock(p) ==    \* wakers_lock store(false)
    /\ cpc[p] = "W3"
    /\ wlock' = FALSE
    /\ cpc' = [cpc EXCEPT ![p] = "cret"]
    /\ UNCHANGED <<vars, cs, cres, waker, keep, notified, stats, smv>>

-----------------------------------------------------------------------------
\* the rest of poll_next after an empty consume
\* the (empty) dequeue in progress returns and a second one starts, in one step (the monitor sees two dequeues)
ReDeq(p) ==
    /\ pc[p] = "ret" /\ reg[p].op.op = "deq"
    /\ LET o  == [op |-> "deq", v |-> 0, i |-> 0]
           c1 == LQ!LqRet(cands, pend, p, reg[p].res, Extra)
           p1 == [pend EXCEPT ![p] = LQ!NoOp] IN
       /\ cands' = LQ!LqCall(c1, p1, p, MonOpP(p, o), Extra)
       /\ pend' = [pend EXCEPT ![p] = MonOpP(p, o)]
       /\ reg' = [reg EXCEPT ![p].op = o]
    /\ pc' = [pc EXCEPT ![p] = "D1"]
    /\ UNCHANGED rvars
KeepRead(p) ==      \* yield "sm.keep.read"; told to end -> consume once more before ending
    /\ cpc[p] = "K1"
    /\ IF keep[cs[p]]
       THEN cpc' = [cpc EXCEPT ![p] = "R1"] /\ UNCHANGED vars
       ELSE cpc' = [cpc EXCEPT ![p] = "poll2"] /\ ReDeq(p)
    /\ UNCHANGED <<cs, cres, waker, wlock, keep, notified, stats, smv>>
WakerPeek(p) ==     \* yield "sm.waker.peek": already registered (the task always presents the same waker) -> nothing to do
    /\ cpc[p] = "R1"
    /\ IF waker[cs[p]]
       THEN cpc' = [cpc EXCEPT ![p] = "cret"] /\ cres' = [cres EXCEPT ![p] = "pending"]
       ELSE cpc' = [cpc EXCEPT ![p] = "R2"] /\ UNCHANGED cres
    /\ UNCHANGED <<vars, cs, waker, wlock, keep, notified, stats, smv>>
WakerLock(p) ==     \* wakers_lock CAS; insert the waker
    /\ cpc[p] = "R2" /\ ~wlock
    /\ wlock' = TRUE /\ waker' = [waker EXCEPT ![cs[p]] = TRUE]
    /\ cpc' = [cpc EXCEPT ![p] = "R3"]
    /\ UNCHANGED <<vars, cs, cres, keep, notified, stats, smv>>
WakerUnlock(p) ==   \* wakers_lock store(false); then the inserted waker is woken once (the self-wake)
    /\ cpc[p] = "R3"
    /\ wlock' = FALSE /\ notified' = Wake(cs[p], notified)
    /\ cpc' = [cpc EXCEPT ![p] = "cret"] /\ cres' = [cres EXCEPT ![p] = "pending"]
    /\ UNCHANGED <<vars, cs, waker, keep, stats, smv>>

-----------------------------------------------------------------------------
\* cancel_all_streams: for every id: yield "sm.used.read"; yield "sm.keep.clear"; keep[id] := FALSE; wake_stream(id)
CallCancel(p) == /\ cpc[p] = "idle"
                 /\ cpc' = [cpc EXCEPT ![p] = "X1"] /\ cs' = [cs EXCEPT ![p] = 0] /\ cres' = [cres EXCEPT ![p] = ""]
                 /\ UNCHANGED <<vars, waker, wlock, keep, notified, stats, smv>>
CancelNext(p) ==    \* "sm.used.read"
    /\ cpc[p] = "X1"
    /\ cpc' = [cpc EXCEPT ![p] = "X2"]
    /\ UNCHANGED <<vars, cs, cres, waker, wlock, keep, notified, stats, smv>>
CancelClear(p) ==   \* "sm.keep.clear": the flag is written after the yield, then wake_stream begins
    /\ cpc[p] = "X2"
    /\ keep' = [keep EXCEPT ![cs[p]] = FALSE]
    /\ cpc' = [cpc EXCEPT ![p] = "XW1"]
    /\ UNCHANGED <<vars, cs, cres, waker, wlock, notified, stats, smv>>
\* wake_stream inside cancel: same three steps, then on to the next id
XAfterWake(p) == IF cs[p] + 1 \in Streams THEN <<"X1", cs[p] + 1>>
                 ELSE IF cx[p].kont = "close" THEN <<"Q1", cs[p]>>        \* end_all_streams goes on to wait for the streams to be gone
                 ELSE <<"cret", cs[p]>>
CancelWakePeek(p) ==
    /\ cpc[p] = "XW1"
    /\ IF waker[cs[p]]
       THEN /\ notified' = Wake(cs[p], notified)
            /\ cpc' = [cpc EXCEPT ![p] = XAfterWake(p)[1]] /\ cs' = [cs EXCEPT ![p] = XAfterWake(p)[2]]
       ELSE UNCHANGED <<notified, cs>> /\ cpc' = [cpc EXCEPT ![p] = "XW2"]
    /\ UNCHANGED <<vars, cres, waker, wlock, keep, stats, smv>>
CancelWakeLock(p) ==
    /\ cpc[p] = "XW2" /\ ~wlock
    /\ wlock' = TRUE
    /\ notified' = IF waker[cs[p]] THEN Wake(cs[p], notified) ELSE notified
    /\ cpc' = [cpc EXCEPT ![p] = "XW3"]
    /\ UNCHANGED <<vars, cs, cres, waker, keep, stats, smv>>
CancelWakeUnlock(p) ==
    /\ cpc[p] = "XW3"
    /\ wlock' = FALSE
    /\ cpc' = [cpc EXCEPT ![p] = XAfterWake(p)[1]] /\ cs' = [cs EXCEPT ![p] = XAfterWake(p)[2]]
    /\ UNCHANGED <<vars, cres, waker, keep, notified, stats, smv>>

-----------------------------------------------------------------------------
\* close: gracefully_end_all_streams(Duration::ZERO), then is_channel_open() and running_streams_count() (what the harness' `close` asks)
SmU == <<count, vac, vlock, slock, used, finished>>
CallClose(p) == /\ cpc[p] = "idle"
                /\ cpc' = [cpc EXCEPT ![p] = "F1"] /\ cres' = [cres EXCEPT ![p] = ""]
                /\ cx' = [cx EXCEPT ![p] = [NoCx EXCEPT !.kont = "close", !.accAt = stats.acc]]
                /\ UNCHANGED <<vars, cs, waker, wlock, keep, notified, stats, SmU>>
\* flush: pending_items_count() = available_elements_count() = tail.load - head.load
CloseLenTail(p) ==
    /\ cpc[p] = "F1"
    /\ cx' = [cx EXCEPT ![p].t = tail]
    /\ cpc' = [cpc EXCEPT ![p] = "F2"]
    /\ UNCHANGED <<vars, cs, cres, waker, wlock, keep, notified, stats, SmU>>
CloseLenHead(p) ==     \* something pending -> wake_all_streams begins; nothing -> flush returns 0 and cancel_all_streams begins
    /\ cpc[p] = "F2"
    /\ cpc' = [cpc EXCEPT ![p] = IF Sub(cx[p].t, head) > 0 THEN "FW1" ELSE "X1"]
    /\ cs' = [cs EXCEPT ![p] = 0]
    /\ UNCHANGED <<vars, cres, waker, wlock, keep, notified, stats, smv>>
\* wake_all_streams: wake_stream(id) for every id, then tokio::time::sleep(1 ms)
FAfterWake(p) == IF cs[p] + 1 \in Streams THEN <<"FW1", cs[p] + 1>> ELSE <<"Z1", cs[p]>>
CloseWakePeek(p) ==
    /\ cpc[p] = "FW1"
    /\ IF waker[cs[p]]
       THEN /\ notified' = Wake(cs[p], notified)
            /\ cpc' = [cpc EXCEPT ![p] = FAfterWake(p)[1]] /\ cs' = [cs EXCEPT ![p] = FAfterWake(p)[2]]
       ELSE UNCHANGED <<notified, cs>> /\ cpc' = [cpc EXCEPT ![p] = "FW2"]
    /\ UNCHANGED <<vars, cres, waker, wlock, keep, stats, smv>>
CloseWakeLock(p) ==
    /\ cpc[p] = "FW2" /\ ~wlock
    /\ wlock' = TRUE
    /\ notified' = IF waker[cs[p]] THEN Wake(cs[p], notified) ELSE notified
    /\ cpc' = [cpc EXCEPT ![p] = "FW3"]
    /\ UNCHANGED <<vars, cs, cres, waker, keep, stats, smv>>
CloseWakeUnlock(p) ==
    /\ cpc[p] = "FW3"
    /\ wlock' = FALSE
    /\ cpc' = [cpc EXCEPT ![p] = FAfterWake(p)[1]] /\ cs' = [cs EXCEPT ![p] = FAfterWake(p)[2]]
    /\ UNCHANGED <<vars, cres, waker, keep, notified, stats, smv>>
\* the sleeps of the two polling loops are over (the thread goes on to the loop's next check)
CloseSlept(p) ==
    /\ cpc[p] \in {"Z1", "Z2"}
    /\ cpc' = [cpc EXCEPT ![p] = IF cpc[p] = "Z1" THEN "F1" ELSE "Q1"]
    /\ UNCHANGED <<vars, cs, cres, waker, wlock, keep, notified, stats, smv>>
\* while running_streams_count() > 0 { sleep }
CloseRunLoad(p) ==
    /\ cpc[p] = "Q1"
    /\ cpc' = [cpc EXCEPT ![p] = IF count > 0 THEN "Z2" ELSE "Q2"]
    /\ UNCHANGED <<vars, cs, cres, waker, wlock, keep, notified, stats, smv>>
CloseRunRet(p) ==      \* the value end_all_streams returns; the caller's is_channel_open() begins
    /\ cpc[p] = "Q2"
    /\ cx' = [cx EXCEPT ![p].left = count]
    /\ cpc' = [cpc EXCEPT ![p] = "O1"] /\ cs' = [cs EXCEPT ![p] = 0]
    /\ UNCHANGED <<vars, cres, waker, wlock, keep, notified, stats, SmU>>
CloseOpenRead(p) ==    \* is_any_stream_running: [y sm.keep.read] per id until one says yes; then the caller's running_streams_count()
    /\ cpc[p] = "O1"
    /\ IF keep[cs[p]]
       THEN cx' = [cx EXCEPT ![p].open = TRUE] /\ cpc' = [cpc EXCEPT ![p] = "O2"] /\ UNCHANGED cs
       ELSE IF cs[p] + 1 \in Streams
       THEN cs' = [cs EXCEPT ![p] = @ + 1] /\ UNCHANGED <<cpc, cx>>
       ELSE cpc' = [cpc EXCEPT ![p] = "O2"] /\ UNCHANGED <<cs, cx>>
    /\ UNCHANGED <<vars, cres, waker, wlock, keep, notified, stats, SmU>>
CloseRunning(p) ==
    /\ cpc[p] = "O2"
    /\ cx' = [cx EXCEPT ![p].run = count]
    /\ cpc' = [cpc EXCEPT ![p] = "cret"] /\ cres' = [cres EXCEPT ![p] = "closed"]
    /\ UNCHANGED <<vars, cs, waker, wlock, keep, notified, stats, SmU>>

-----------------------------------------------------------------------------
\* drop of a stream: report_stream_dropped(s), then sync_vacant_and_used_streams
CallDrop(p, s) == /\ cpc[p] = "idle"
                  /\ cpc' = [cpc EXCEPT ![p] = "P1"] /\ cs' = [cs EXCEPT ![p] = s] /\ cres' = [cres EXCEPT ![p] = ""]
                  /\ UNCHANGED <<vars, waker, wlock, keep, notified, stats, smv>>
DropWLock(p) ==     \* wakers_lock CAS; wakers[s] := None
    /\ cpc[p] = "P1" /\ ~wlock
    /\ wlock' = TRUE /\ waker' = [waker EXCEPT ![cs[p]] = FALSE]
    /\ cpc' = [cpc EXCEPT ![p] = "P2"]
    /\ UNCHANGED <<vars, cs, cres, keep, notified, stats, smv>>
DropWUnlock(p) ==
    /\ cpc[p] = "P2"
    /\ wlock' = FALSE
    /\ cpc' = [cpc EXCEPT ![p] = "P3"]
    /\ UNCHANGED <<vars, cs, cres, waker, keep, notified, stats, smv>>
DropCountA(p) ==    \* finished_streams_count.fetch_add(1)
    /\ cpc[p] = "P3"
    /\ finished' = finished + 1
    /\ cpc' = [cpc EXCEPT ![p] = "P4"]
    /\ UNCHANGED <<vars, cs, cres, waker, wlock, keep, notified, stats, count, vac, vlock, slock, used, cx>>
DropCountB(p) ==    \* used_streams_count.fetch_sub(1)
    /\ cpc[p] = "P4"
    /\ count' = count - 1
    /\ cpc' = [cpc EXCEPT ![p] = "P5"]
    /\ UNCHANGED <<vars, cs, cres, waker, wlock, keep, notified, stats, vac, vlock, slock, used, finished, cx>>
DropVPush(p) ==     \* vacant_streams: concurrency_guard CAS; the id is written and the tail advanced (under the guard)
    /\ cpc[p] = "P5" /\ ~vlock
    /\ vlock' = TRUE /\ vac' = Append(vac, cs[p])
    /\ cpc' = [cpc EXCEPT ![p] = "P6"]
    /\ UNCHANGED <<vars, cs, cres, waker, wlock, keep, notified, stats, count, slock, used, finished, cx>>
DropVUnlock(p) ==
    /\ cpc[p] = "P6"
    /\ vlock' = FALSE
    /\ cpc' = [cpc EXCEPT ![p] = "Y1"]
    /\ UNCHANGED <<vars, cs, cres, waker, wlock, keep, notified, stats, count, vac, slock, used, finished, cx>>
SyncLock(p) ==      \* streams_lock CAS; peek_remaining (unsynchronised with the vacant queue's own guard) + sort
    /\ cpc[p] = "Y1" /\ ~slock
    /\ slock' = TRUE
    /\ cx' = [cx EXCEPT ![p].tgt = ListOf(Streams \ Elems(vac)), ![p].k = 0]
    /\ cpc' = [cpc EXCEPT ![p] = "Y2"]
    /\ UNCHANGED <<vars, cs, cres, waker, wlock, keep, notified, stats, count, vac, vlock, used, finished>>
SyncWrite(p) ==     \* [y sm.used.write] used[k] := target[k]
    /\ cpc[p] = "Y2"
    /\ used' = [used EXCEPT ![cx[p].k] = cx[p].tgt[cx[p].k]]
    /\ cx' = [cx EXCEPT ![p].k = @ + 1]
    /\ cpc' = [cpc EXCEPT ![p] = IF cx[p].k + 1 < MaxS THEN "Y2" ELSE "Y3"]
    /\ UNCHANGED <<vars, cs, cres, waker, wlock, keep, notified, stats, count, vac, vlock, slock, finished>>
SyncUnlock(p) ==    \* streams_lock store(false); the drop returns
    /\ cpc[p] = "Y3"
    /\ slock' = FALSE
    /\ cpc' = [cpc EXCEPT ![p] = "cret"] /\ cres' = [cres EXCEPT ![p] = "dropped"]
    /\ UNCHANGED <<vars, cs, waker, wlock, keep, notified, stats, count, vac, vlock, used, finished, cx>>

-----------------------------------------------------------------------------
\* return of the channel operation (and of the ring operation underneath, if any)
ChanRet(p) ==
    /\ cpc[p] = "cret"
    /\ IF pc[p] = "ret" THEN Ret(p) ELSE UNCHANGED vars
    /\ cpc' = [cpc EXCEPT ![p] = "idle"]
    /\ stats' = [stats EXCEPT !.acc = IF cres[p] = "ok" THEN @ + 1 ELSE @,
                              !.rej = IF cres[p] = "full" THEN @ + 1 ELSE @,
                              !.del = IF cres[p] = "item" THEN @ + 1 ELSE @]
    /\ UNCHANGED <<cs, cres, waker, wlock, keep, notified, smv>>

ChanStep(p) == \/ ChanRing(p)
               \/ WakePeek(p) \/ WakeLock(p) \/ WakeUnlock(p)
               \/ KeepRead(p) \/ WakerPeek(p) \/ WakerLock(p) \/ WakerUnlock(p)
               \/ CancelNext(p) \/ CancelClear(p) \/ CancelWakePeek(p) \/ CancelWakeLock(p) \/ CancelWakeUnlock(p)
               \/ CloseLenTail(p) \/ CloseLenHead(p) \/ CloseWakePeek(p) \/ CloseWakeLock(p) \/ CloseWakeUnlock(p)
               \/ CloseRunLoad(p) \/ CloseRunRet(p) \/ CloseOpenRead(p) \/ CloseRunning(p)
               \/ DropWLock(p) \/ DropWUnlock(p) \/ DropCountA(p) \/ DropCountB(p) \/ DropVPush(p) \/ DropVUnlock(p)
               \/ SyncLock(p) \/ SyncWrite(p) \/ SyncUnlock(p)

-----------------------------------------------------------------------------
Queued == Sub(tail, head)
InvChanTypes == /\ wlock \in BOOLEAN /\ \A s \in Streams : waker[s] \in BOOLEAN /\ keep[s] \in BOOLEAN /\ notified[s] \in BOOLEAN
                /\ stats.del <= stats.acc + Cardinality({p \in Procs : cpc[p] \in {"send", "sendr", "W1", "W2", "W3", "cret"}})
\* the lock is only ever held by a thread between its lock and unlock steps
InvWakersLock == wlock <=> (\E p \in Procs : cpc[p] \in {"W3", "R3", "XW3", "FW3", "P2"})
InvSmLocks == /\ vlock <=> (\E p \in Procs : cpc[p] = "P6")
              /\ slock <=> (\E p \in Procs : cpc[p] \in {"Y2", "Y3"})
\* the running-streams counter and the list agree with the vacant queue whenever no drop is in progress (C10's bookkeeping, Uni side)
Dropping == \E p \in Procs : cpc[p] \in {"P1", "P2", "P3", "P4", "P5", "P6", "Y1", "Y2", "Y3"}
InvRunningCount == ~Dropping => (count = MaxS - Len(vac) /\ finished = Len(vac) /\ used = ListOf(Streams \ Elems(vac)))
=============================================================================
