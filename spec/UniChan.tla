------------------------------ MODULE UniChan ------------------------------
(***************************************************************************)
(* L2 (implementation-shaped) specification of the movable atomic Uni       *)
(* channel, one action per scheduling point of the real code:               *)
(*   /repo/src/uni/channels/movable/atomic.rs    send / consume             *)
(*   /repo/src/ogre_std/ogre_queues/atomic/atomic_move.rs  (= RingAtomic)   *)
(*   /repo/src/streams_manager.rs   wake_stream / keep_stream_running /     *)
(*                                  register_stream_waker / cancel_stream   *)
(*   /repo/src/mutiny_stream.rs     poll_next                               *)
(* and of the executor task that drives a stream (poll; on Pending park     *)
(* until the waker is invoked -- a sticky notification, as tokio's).        *)
(*                                                                          *)
(* The ring underneath is RingAtomic, unchanged: the channel layer takes    *)
(* over when a ring operation has computed its result (pc = "ret") and      *)
(* performs the ring's return step together with its own.                   *)
(*   send:  enqueue; len_after <= MAX_STREAMS -> wake stream len_after-1;   *)
(*          len_after = MAX_STREAMS+1 -> wake stream len_after-2            *)
(*   wake_stream(s): peek wakers[s] without the lock; Some -> wake;         *)
(*          None -> lock, look again (wake if Some), unlock                 *)
(*   poll:  dequeue; nothing -> read keep[s]; FALSE -> dequeue once more    *)
(*          (an event may have come in since), nothing again -> end of      *)
(*          stream;                                                         *)
(*          TRUE -> peek wakers[s]; Some (same waker) -> Pending;           *)
(*          None -> lock, insert, unlock, wake the inserted waker, Pending  *)
(*   cancel_all: for every stream id: keep[id] := FALSE; wake_stream(id)    *)
(* Properties: C01 (nothing lost / invented), C02 (the LinQueue monitor of  *)
(* RingAtomic, now over the channel's call / return window), C04 (no lost   *)
(* wake-up, safety form), C07 (cancelled streams end).                      *)
(***************************************************************************)
EXTENDS RingAtomic

CONSTANT MaxS            \* MAX_STREAMS; streams 0..MaxS-1 exist from the start, stream s is driven by task thread TaskOf(s)

Streams == 0..MaxS-1

VARIABLES cpc,      \* per thread: where it is in the channel layer
          cs,       \* per thread: the stream it is about to wake / it is polling
          cres,     \* per thread: result of the channel operation in progress ("" | "ok" | "full" | "item" | "pending" | "end")
          waker,    \* per stream: a waker is registered
          wlock,    \* wakers_lock
          keep,     \* keep_streams_running
          notified, \* per stream: the task's sticky notification
          stats     \* ghost counters

cvars == <<cpc, cs, cres, waker, wlock, keep, notified, stats>>
uvars == <<vars, cvars>>

CInit == /\ cpc = [p \in Procs |-> "idle"] /\ cs = [p \in Procs |-> 0] /\ cres = [p \in Procs |-> ""]
         /\ waker = [s \in Streams |-> FALSE] /\ wlock = FALSE /\ keep = [s \in Streams |-> TRUE]
         /\ notified = [s \in Streams |-> FALSE]
         /\ stats = [acc |-> 0, rej |-> 0, del |-> 0]
UInit == Init /\ CInit

\* the ring's operation steps (everything of RingAtomic!Step but the return)
RStep(p) == \/ EnqFA(p) \/ EnqLoadHead(p) \/ EnqRecedeOk(p) \/ EnqRecedeFail(p) \/ EnqPublish(p)
            \/ DeqFA(p) \/ DeqLoadTail(p) \/ DeqRecedeOk(p) \/ DeqRecedeFail(p) \/ DeqRelease(p)

Wake(s, nf) == [nf EXCEPT ![s] = TRUE]

-----------------------------------------------------------------------------
\* calls
CallSend(p, v) == /\ cpc[p] = "idle"
                  /\ Call(p, [op |-> "enq", v |-> v, i |-> 0])
                  /\ cpc' = [cpc EXCEPT ![p] = "send"] /\ cres' = [cres EXCEPT ![p] = ""]
                  /\ UNCHANGED <<cs, waker, wlock, keep, notified, stats>>
CallPoll(p, s) == /\ cpc[p] = "idle"
                  /\ Call(p, [op |-> "deq", v |-> 0, i |-> 0])
                  /\ cpc' = [cpc EXCEPT ![p] = "poll"] /\ cs' = [cs EXCEPT ![p] = s] /\ cres' = [cres EXCEPT ![p] = ""]
                  /\ UNCHANGED <<waker, wlock, keep, notified, stats>>

\* which stream a successful send wakes (the "+1 workaround" of the atomic channel included); -1: nobody
WakeTarget(la) == IF la <= MaxS THEN la - 1 ELSE IF la = MaxS + 1 THEN la - 2 ELSE -1

\* a ring step; when it completes the ring operation, the thread runs on -- within the same scheduling step -- to the next
\* scheduling point of the channel layer
ChanRing(p) ==
    /\ cpc[p] \in {"send", "poll", "poll2"} /\ pc[p] # "ret"
    /\ RStep(p)
    /\ IF pc'[p] # "ret"
       THEN UNCHANGED <<cpc, cs, cres>>
       ELSE IF cpc[p] = "send"
       THEN IF reg'[p].res.ok
            THEN LET w == WakeTarget(reg'[p].res.v) IN
                 /\ cres' = [cres EXCEPT ![p] = "ok"]
                 /\ IF w >= 0 THEN cpc' = [cpc EXCEPT ![p] = "W1"] /\ cs' = [cs EXCEPT ![p] = w]
                              ELSE cpc' = [cpc EXCEPT ![p] = "cret"] /\ UNCHANGED cs
            ELSE cres' = [cres EXCEPT ![p] = "full"] /\ cpc' = [cpc EXCEPT ![p] = "cret"] /\ UNCHANGED cs
       ELSE IF reg'[p].res.ok
            THEN cres' = [cres EXCEPT ![p] = "item"] /\ cpc' = [cpc EXCEPT ![p] = "cret"] /\ UNCHANGED cs
            ELSE IF cpc[p] = "poll2"
            THEN cres' = [cres EXCEPT ![p] = "end"] /\ cpc' = [cpc EXCEPT ![p] = "cret"] /\ UNCHANGED cs        \* nothing again: end of stream
            ELSE cpc' = [cpc EXCEPT ![p] = "K1"] /\ UNCHANGED <<cs, cres>>
    /\ UNCHANGED <<waker, wlock, keep, notified, stats>>

-----------------------------------------------------------------------------
\* wake_stream(cs[p])
WakePeek(p) ==      \* yield "sm.wake.peek"; the unsynchronised read of wakers[s]
    /\ cpc[p] = "W1"
    /\ IF waker[cs[p]]
       THEN notified' = Wake(cs[p], notified) /\ cpc' = [cpc EXCEPT ![p] = "cret"]
       ELSE UNCHANGED notified /\ cpc' = [cpc EXCEPT ![p] = "W2"]
    /\ UNCHANGED <<vars, cs, cres, waker, wlock, keep, stats>>
WakeLock(p) ==      \* wakers_lock CAS (spins while taken); second look at wakers[s] under the lock
    /\ cpc[p] = "W2" /\ ~wlock
    /\ wlock' = TRUE
    /\ notified' = IF waker[cs[p]] THEN Wake(cs[p], notified) ELSE notified
    /\ cpc' = [cpc EXCEPT ![p] = "W3"]
    /\ UNCHANGED <<vars, cs, cres, waker, keep, stats>>
WakeUnlock(p) ==    \* wakers_lock store(false)
    /\ cpc[p] = "W3"
    /\ wlock' = FALSE
    /\ cpc' = [cpc EXCEPT ![p] = "cret"]
    /\ UNCHANGED <<vars, cs, cres, waker, keep, notified, stats>>

-----------------------------------------------------------------------------
\* the rest of poll_next after an empty consume
\* the (empty) dequeue in progress returns and a second one starts, in one step (the monitor sees two dequeues)
ReDeq(p) ==
    /\ pc[p] = "ret" /\ reg[p].op.op = "deq"
    /\ LET o  == [op |-> "deq", v |-> 0, i |-> 0]
           c1 == LQ!LqRet(cands, pend, p, reg[p].res, Extra)
           p1 == [pend EXCEPT ![p] = LQ!NoOp] IN
       /\ cands' = LQ!LqCall(c1, p1, p, MonOpP(p, o), Extra)
       /\ pend' = [pend EXCEPT ![p] = MonOpP(p, o)]
       /\ reg' = [reg EXCEPT ![p].op = o]
    /\ pc' = [pc EXCEPT ![p] = "D1"]
    /\ UNCHANGED rvars
KeepRead(p) ==      \* yield "sm.keep.read"; told to end -> consume once more before ending
    /\ cpc[p] = "K1"
    /\ IF keep[cs[p]]
       THEN cpc' = [cpc EXCEPT ![p] = "R1"] /\ UNCHANGED vars
       ELSE cpc' = [cpc EXCEPT ![p] = "poll2"] /\ ReDeq(p)
    /\ UNCHANGED <<cs, cres, waker, wlock, keep, notified, stats>>
WakerPeek(p) ==     \* yield "sm.waker.peek": already registered (the task always presents the same waker) -> nothing to do
    /\ cpc[p] = "R1"
    /\ IF waker[cs[p]]
       THEN cpc' = [cpc EXCEPT ![p] = "cret"] /\ cres' = [cres EXCEPT ![p] = "pending"]
       ELSE cpc' = [cpc EXCEPT ![p] = "R2"] /\ UNCHANGED cres
    /\ UNCHANGED <<vars, cs, waker, wlock, keep, notified, stats>>
WakerLock(p) ==     \* wakers_lock CAS; insert the waker
    /\ cpc[p] = "R2" /\ ~wlock
    /\ wlock' = TRUE /\ waker' = [waker EXCEPT ![cs[p]] = TRUE]
    /\ cpc' = [cpc EXCEPT ![p] = "R3"]
    /\ UNCHANGED <<vars, cs, cres, keep, notified, stats>>
WakerUnlock(p) ==   \* wakers_lock store(false); then the inserted waker is woken once (the self-wake)
    /\ cpc[p] = "R3"
    /\ wlock' = FALSE /\ notified' = Wake(cs[p], notified)
    /\ cpc' = [cpc EXCEPT ![p] = "cret"] /\ cres' = [cres EXCEPT ![p] = "pending"]
    /\ UNCHANGED <<vars, cs, waker, keep, stats>>

-----------------------------------------------------------------------------
\* cancel_all_streams: for every id: yield "sm.used.read"; yield "sm.keep.clear"; keep[id] := FALSE; wake_stream(id)
CallCancel(p) == /\ cpc[p] = "idle"
                 /\ cpc' = [cpc EXCEPT ![p] = "X1"] /\ cs' = [cs EXCEPT ![p] = 0] /\ cres' = [cres EXCEPT ![p] = ""]
                 /\ UNCHANGED <<vars, waker, wlock, keep, notified, stats>>
CancelNext(p) ==    \* "sm.used.read"
    /\ cpc[p] = "X1"
    /\ cpc' = [cpc EXCEPT ![p] = "X2"]
    /\ UNCHANGED <<vars, cs, cres, waker, wlock, keep, notified, stats>>
CancelClear(p) ==   \* "sm.keep.clear": the flag is written after the yield, then wake_stream begins
    /\ cpc[p] = "X2"
    /\ keep' = [keep EXCEPT ![cs[p]] = FALSE]
    /\ cpc' = [cpc EXCEPT ![p] = "XW1"]
    /\ UNCHANGED <<vars, cs, cres, waker, wlock, notified, stats>>
\* wake_stream inside cancel: same three steps, then on to the next id
XAfterWake(p) == IF cs[p] + 1 \in Streams THEN <<"X1", cs[p] + 1>> ELSE <<"cret", cs[p]>>
CancelWakePeek(p) ==
    /\ cpc[p] = "XW1"
    /\ IF waker[cs[p]]
       THEN /\ notified' = Wake(cs[p], notified)
            /\ cpc' = [cpc EXCEPT ![p] = XAfterWake(p)[1]] /\ cs' = [cs EXCEPT ![p] = XAfterWake(p)[2]]
       ELSE UNCHANGED <<notified, cs>> /\ cpc' = [cpc EXCEPT ![p] = "XW2"]
    /\ UNCHANGED <<vars, cres, waker, wlock, keep, stats>>
CancelWakeLock(p) ==
    /\ cpc[p] = "XW2" /\ ~wlock
    /\ wlock' = TRUE
    /\ notified' = IF waker[cs[p]] THEN Wake(cs[p], notified) ELSE notified
    /\ cpc' = [cpc EXCEPT ![p] = "XW3"]
    /\ UNCHANGED <<vars, cs, cres, waker, keep, stats>>
CancelWakeUnlock(p) ==
    /\ cpc[p] = "XW3"
    /\ wlock' = FALSE
    /\ cpc' = [cpc EXCEPT ![p] = XAfterWake(p)[1]] /\ cs' = [cs EXCEPT ![p] = XAfterWake(p)[2]]
    /\ UNCHANGED <<vars, cres, waker, keep, notified, stats>>

-----------------------------------------------------------------------------
\* return of the channel operation (and of the ring operation underneath, if any)
ChanRet(p) ==
    /\ cpc[p] = "cret"
    /\ IF pc[p] = "ret" THEN Ret(p) ELSE UNCHANGED vars
    /\ cpc' = [cpc EXCEPT ![p] = "idle"]
    /\ stats' = [stats EXCEPT !.acc = IF cres[p] = "ok" THEN @ + 1 ELSE @,
                              !.rej = IF cres[p] = "full" THEN @ + 1 ELSE @,
                              !.del = IF cres[p] = "item" THEN @ + 1 ELSE @]
    /\ UNCHANGED <<cs, cres, waker, wlock, keep, notified>>

ChanStep(p) == \/ ChanRing(p)
               \/ WakePeek(p) \/ WakeLock(p) \/ WakeUnlock(p)
               \/ KeepRead(p) \/ WakerPeek(p) \/ WakerLock(p) \/ WakerUnlock(p)
               \/ CancelNext(p) \/ CancelClear(p) \/ CancelWakePeek(p) \/ CancelWakeLock(p) \/ CancelWakeUnlock(p)

-----------------------------------------------------------------------------
Queued == Sub(tail, head)
InvChanTypes == /\ wlock \in BOOLEAN /\ \A s \in Streams : waker[s] \in BOOLEAN /\ keep[s] \in BOOLEAN /\ notified[s] \in BOOLEAN
                /\ stats.del <= stats.acc + Cardinality({p \in Procs : cpc[p] \in {"send", "W1", "W2", "W3", "cret"}})
\* the lock is only ever held by a thread between its lock and unlock steps
InvWakersLock == wlock <=> (\E p \in Procs : cpc[p] \in {"W3", "R3", "XW3"})
=============================================================================
