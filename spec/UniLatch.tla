------------------------------ MODULE UniLatch ------------------------------
(***************************************************************************)
(* `latch_callback_1p` of /repo/src/uni/uni.rs: each of the S executors of a *)
(* Uni decrements a shared counter when it ends; the one that finds 1 takes  *)
(* the user's close callback (under a mutex) and runs it.                    *)
(***************************************************************************)
EXTENDS Integers, FiniteSets
CONSTANT S
VARIABLES counter, pc, fired
vars == <<counter, pc, fired>>
Ex == 1..S
Init == counter = S /\ pc = [e \in Ex |-> "running"] /\ fired = 0
Ends(e) == pc[e] = "running" /\ pc' = [pc EXCEPT ![e] = "sub"] /\ UNCHANGED <<counter, fired>>
FetchSub(e) == /\ pc[e] = "sub" /\ counter' = counter - 1
               /\ pc' = [pc EXCEPT ![e] = IF counter = 1 THEN "fire" ELSE "done"] /\ UNCHANGED fired
Fire(e) == pc[e] = "fire" /\ fired' = fired + 1 /\ pc' = [pc EXCEPT ![e] = "done"] /\ UNCHANGED counter
Done == (\A e \in Ex : pc[e] = "done") /\ UNCHANGED vars
Next == (\E e \in Ex : Ends(e) \/ FetchSub(e) \/ Fire(e)) \/ Done
InvFiresOnce == fired <= 1 /\ ((\A e \in Ex : pc[e] = "done") => fired = 1)
InvFiresAfterAll == fired = 1 => \A e \in Ex : pc[e] \in {"done"}
=============================================================================
