-------------------------- MODULE Trace_RingAtomic --------------------------
(***************************************************************************)
(* Trace validation: every event recorded from the real `AtomicMove`        *)
(* (call / atomic operation with its operands and result / return) must be  *)
(* the next step of the recording thread in RingAtomic, and the L1          *)
(* invariants must hold in every state of the validated behaviour.          *)
(***************************************************************************)
EXTENDS RingAtomic, TraceBase

tvars == <<vars, l, bad>>
WV(x) == x % W

TraceInit == Init /\ TBInit

TReset == /\ Ev.k = "reset"
          /\ ResetTo(WV(Ev.x.origin))

OpName(x) == IF x \in {"alloc", "alloc_with"} THEN "deq" ELSE IF x \in {"dealloc_id", "dealloc_ref", "dealloc_last"} THEN "enq" ELSE x

TCall == /\ Ev.k = "call" /\ ~IsNopCall
         /\ Call(P, [op |-> OpName(Ev.x.op), v |-> Ev.x.v, i |-> Ev.x.i + 1])

TRet == /\ Ev.k = "ret" /\ ~IsNopRet
        /\ pc[P] = "ret"
        /\ reg[P].res.ok = Ev.x.ok
        /\ (reg[P].op.op \in {"enq", "deq", "len", "reserve", "pub_idx"} /\ Ev.x.ok /\ Ev.fn \notin {"dealloc_id", "dealloc_ref", "dealloc_last"})
              => (reg[P].res.v = WV(Ev.x.v))
        /\ Ret(P)

Stutter == UNCHANGED vars

TOp ==
  \/ IsOp("leak_slot_internal", "enqueuer_tail", "fa") /\ WV(Ev.r) = etail /\ EnqFA(P)
  \/ IsOp("leak_slot_internal", "head", "ld") /\ WV(Ev.r) = head /\ EnqLoadHead(P)
  \/ IsOp("try_unleak_slot_internal", "enqueuer_tail", "cas") /\ Ev.ok /\ WV(Ev.b) = reg[P].slot /\ EnqRecedeOk(P)
  \/ IsOp("try_unleak_slot_internal", "enqueuer_tail", "cas") /\ ~Ev.ok /\ WV(Ev.r) = etail /\ EnqRecedeFail(P)
  \/ IsOp("try_publish_leaked_internal", "tail", "cas") /\ Ev.ok /\ WV(Ev.a) = reg[P].slot /\ EnqPublish(P)
  \/ IsOp("try_publish_leaked_internal", "tail", "cas") /\ ~Ev.ok /\ pc[P] = "E5" /\ tail # reg[P].slot /\ WV(Ev.r) = tail /\ Stutter
  \/ IsOp("consume_leaking_internal", "dequeuer_head", "fa") /\ WV(Ev.r) = dhead /\ DeqFA(P)
  \/ IsOp("consume_leaking_internal", "tail", "ld") /\ WV(Ev.r) = tail /\ DeqLoadTail(P)
  \/ IsOp("consume_leaking_internal", "dequeuer_head", "cas") /\ Ev.ok /\ WV(Ev.b) = reg[P].slot /\ DeqRecedeOk(P)
  \/ IsOp("consume_leaking_internal", "dequeuer_head", "cas") /\ ~Ev.ok /\ WV(Ev.r) = dhead /\ DeqRecedeFail(P)
  \/ IsOp("release_leaked_internal", "head", "cas") /\ Ev.ok /\ WV(Ev.a) = reg[P].slot /\ DeqRelease(P)
  \/ IsOp("release_leaked_internal", "head", "cas") /\ ~Ev.ok /\ pc[P] = "D4" /\ head # reg[P].slot /\ WV(Ev.r) = head /\ Stutter
  \/ IsOp("available_elements_count", "tail", "ld") /\ WV(Ev.r) = tail /\ LenLoadTail(P)
  \/ IsOp("available_elements_count", "head", "ld") /\ WV(Ev.r) = head /\ LenLoadHead(P)
  \/ IsOp("try_publish_leaked_internal_index", "tail", "cas") /\ Ev.ok /\ WV(Ev.a) = reg[P].slot /\ PubIdxCasOk(P)
  \/ IsOp("try_publish_leaked_internal_index", "tail", "cas") /\ ~Ev.ok /\ WV(Ev.r) = tail /\ WV(Ev.a) = reg[P].slot /\ PubIdxCasFail(P)
  \/ IsOp("try_publish_leaked_internal_index", "head", "ld") /\ WV(Ev.r) = head /\ PubIdxLoadHead(P)
  \/ IsOp("try_unleak_slot_index_internal", "enqueuer_tail", "cas") /\ Ev.ok /\ WV(Ev.b) = reg[P].slot /\ UnleakCasOk(P)
  \/ IsOp("try_unleak_slot_index_internal", "enqueuer_tail", "cas") /\ ~Ev.ok /\ WV(Ev.r) = etail /\ WV(Ev.b) = reg[P].slot /\ UnleakCasFail(P)

TPanic == /\ Ev.k = "panic"
          /\ pc[P] = "panic"
          /\ Stutter

\* end of a run: the drained content is what the model holds (only when every thread finished its operations)
TFinal == /\ Ev.k = "final"
          /\ (AllIdle /\ ~Ev.x.hard) => (SeqOf(Ev.x.drained) = ActualQ)
          /\ Stutter

BadOf == IF ~InvLinearizable THEN "InvLinearizable"
         ELSE IF ~InvBounds THEN "InvBounds"
         ELSE IF ~InvContents THEN "InvContents"
         ELSE ""

TraceNext == /\ l <= Len(Rec)
             /\ l' = l + 1
             /\ IF Skipping
                THEN UNCHANGED <<vars, bad>>
                ELSE /\ (((IsNopCall \/ IsNopRet) /\ Stutter) \/ TReset \/ TCall \/ TRet \/ TOp \/ TPanic \/ TFinal)
                     /\ bad' = Worst(EvBad, BadOf')
                     /\ NoteBad(bad')

TraceSpec == TraceInit /\ [][TraceNext]_tvars
=============================================================================
