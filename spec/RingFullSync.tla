---------------------------- MODULE RingFullSync ----------------------------
(***************************************************************************)
(* L2 specification of `FullSyncMove`                                       *)
(* (/repo/src/ogre_std/ogre_queues/full_sync/full_sync_move.rs) with the    *)
(* spin lock of ogre_sync.rs: one action per atomic operation on the lock   *)
(* flag (the plain head/tail/buffer accesses made while holding the lock    *)
(* belong to the step of the preceding atomic), plus the unsynchronised     *)
(* length query (two plain reads separated by a yield point).               *)
(***************************************************************************)
EXTENDS Integers, Sequences, FiniteSets, TLC

CONSTANTS N, W, Procs, Origins, RelaxEmpty, Prefill, Mode

VARIABLES head, tail, lock, buf, pc, reg, cands, pend

rvars == <<head, tail, lock, buf>>
vars  == <<head, tail, lock, buf, pc, reg, cands, pend>>

LQ == INSTANCE LinQueue WITH LqThreads <- Procs, LqCap <- N, LqRelaxEmpty <- RelaxEmpty, LqMode <- Mode

Add(x, k)  == (x + k) % W
Sub(x, y)  == (x - y + W) % W
Signed(d)  == IF d >= W \div 2 THEN d - W ELSE d
Idx(x)     == x % N

NoReg == [v |-> 0, t |-> 0, res |-> [ok |-> FALSE, v |-> 0], op |-> [op |-> "none", v |-> 0, i |-> 0]]

Fill0(o) == IF Prefill THEN [i \in 0..N-1 |-> (i + N - Idx(o)) % N] ELSE [i \in 0..N-1 |-> 0]
Tail0(o) == IF Prefill THEN Add(o, N) ELSE o
Cands0   == IF Prefill THEN {[q |-> [i \in 1..N |-> i - 1], done |-> [t \in Procs |-> LQ!NotYet]]} ELSE LQ!LqInit0

Init == /\ \E o \in Origins : head = o /\ tail = Tail0(o) /\ buf = Fill0(o)
        /\ lock = FALSE
        /\ pc = [p \in Procs |-> "idle"]
        /\ reg = [p \in Procs |-> NoReg]
        /\ cands = Cands0
        /\ pend = LQ!LqNoPend

ResetTo(o) == /\ head' = o /\ tail' = Tail0(o) /\ buf' = Fill0(o)
              /\ lock' = FALSE
              /\ pc' = [p \in Procs |-> "idle"]
              /\ reg' = [p \in Procs |-> NoReg]
              /\ cands' = Cands0
              /\ pend' = LQ!LqNoPend

FirstPc(o) == CASE o = "enq" -> "F1" [] o = "deq" -> "G1" [] o = "len" -> "L1"

MonOp(o) == IF o.op \in {"enq", "deq"} THEN [op |-> o.op, v |-> o.v] ELSE LQ!NoOp

Call(p, o) ==
    /\ pc[p] = "idle"
    /\ pc' = [pc EXCEPT ![p] = FirstPc(o.op)]
    /\ reg' = [reg EXCEPT ![p].op = o]
    /\ pend' = [pend EXCEPT ![p] = MonOp(o)]
    /\ cands' = LQ!LqCall(cands, pend, p, MonOp(o), 0)
    /\ UNCHANGED rvars

Ret(p) ==
    /\ pc[p] = "ret"
    /\ pc' = [pc EXCEPT ![p] = "idle"]
    /\ pend' = [pend EXCEPT ![p] = LQ!NoOp]
    /\ cands' = IF reg[p].op.op = "enq" THEN LQ!LqRet(cands, pend, p, [ok |-> reg[p].res.ok, v |-> 0], 0)
                ELSE IF reg[p].op.op = "deq" THEN LQ!LqRet(cands, pend, p, reg[p].res, 0)
                ELSE cands
    /\ reg' = [reg EXCEPT ![p].op = [op |-> "none", v |-> 0, i |-> 0]]
    /\ UNCHANGED rvars

\* publish_movable: lock; (plain) len_before = tail - head; room => write, tail += 1; then unlock
EnqLock(p) ==
    /\ pc[p] = "F1"
    /\ ~lock
    /\ lock' = TRUE
    /\ LET lb == Sub(tail, head) IN
       IF lb < N
       THEN /\ buf' = [buf EXCEPT ![Idx(tail)] = reg[p].op.v]
            /\ tail' = Add(tail, 1)
            /\ reg' = [reg EXCEPT ![p].res = [ok |-> TRUE, v |-> lb + 1]]
       ELSE /\ reg' = [reg EXCEPT ![p].res = [ok |-> FALSE, v |-> 0]]
            /\ UNCHANGED <<buf, tail>>
    /\ pc' = [pc EXCEPT ![p] = "F2"]
    /\ UNCHANGED <<head, cands, pend>>

Unlock(p) ==
    /\ pc[p] \in {"F2", "G4"}
    /\ lock' = FALSE
    /\ pc' = [pc EXCEPT ![p] = "ret"]
    /\ UNCHANGED <<head, tail, buf, reg, cands, pend>>

\* consume_movable: lock; head; available_elements_count() (two yield points, still holding the lock); read; head += 1; unlock
DeqLock(p) ==
    /\ pc[p] = "G1"
    /\ ~lock
    /\ lock' = TRUE
    /\ pc' = [pc EXCEPT ![p] = "G2"]
    /\ UNCHANGED <<head, tail, buf, reg, cands, pend>>

DeqReadTail(p) ==
    /\ pc[p] = "G2"
    /\ reg' = [reg EXCEPT ![p].t = tail]
    /\ pc' = [pc EXCEPT ![p] = "G3"]
    /\ UNCHANGED <<rvars, cands, pend>>

DeqReadHead(p) ==
    /\ pc[p] = "G3"
    /\ LET lb == Signed(Sub(reg[p].t, head)) IN
       IF lb > 0
       THEN /\ reg' = [reg EXCEPT ![p].res = [ok |-> TRUE, v |-> buf[Idx(head)]]]
            /\ head' = Add(head, 1)
       ELSE /\ reg' = [reg EXCEPT ![p].res = [ok |-> FALSE, v |-> 0]]
            /\ UNCHANGED head
    /\ pc' = [pc EXCEPT ![p] = "G4"]
    /\ UNCHANGED <<tail, lock, buf, cands, pend>>

\* available_elements_count without the lock: racy by construction
LenReadTail(p) ==
    /\ pc[p] = "L1"
    /\ reg' = [reg EXCEPT ![p].t = tail]
    /\ pc' = [pc EXCEPT ![p] = "L2"]
    /\ UNCHANGED <<rvars, cands, pend>>

LenReadHead(p) ==
    /\ pc[p] = "L2"
    /\ reg' = [reg EXCEPT ![p].res = [ok |-> TRUE, v |-> Sub(reg[p].t, head)]]
    /\ pc' = [pc EXCEPT ![p] = "ret"]
    /\ UNCHANGED <<rvars, cands, pend>>

Step(p) == \/ EnqLock(p) \/ Unlock(p) \/ DeqLock(p) \/ DeqReadTail(p) \/ DeqReadHead(p)
           \/ LenReadTail(p) \/ LenReadHead(p) \/ Ret(p)

InvBounds == Sub(tail, head) <= N
InvLinearizable == cands # {}
InvLockOwner == lock => (\E p \in Procs : pc[p] \in {"F2", "G2", "G3", "G4"})
ActualQ == [i \in 1..Sub(tail, head) |-> buf[Idx(Add(head, i - 1))]]
AllIdle == \A p \in Procs : pc[p] = "idle"
InvContents == AllIdle => LQ!LqAgrees(cands, ActualQ)
=============================================================================
