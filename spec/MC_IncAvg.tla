----------------------------- MODULE MC_IncAvg -----------------------------
EXTENDS IncAvg
CONSTANT Script
VARIABLE opi
mcvars == <<vars, opi>>
I(m) == [op |-> "inc", m |-> m]
Pr == [op |-> "probe", m |-> 0]
Script_3r1p == << <<I(1), I(2)>>, <<I(3), I(1)>>, <<I(-1), I(4)>>, <<Pr, Pr>> >>
Script_2r1p == << <<I(1), I(2), I(5)>>, <<I(3), I(-1)>>, <<Pr, Pr, Pr>> >>
MCInit == Init /\ opi = [p \in Procs |-> 1]
MCCall(p) == /\ opi[p] <= Len(Script[p + 1])
             /\ LET o == Script[p + 1][opi[p]] IN (o.op = "inc" /\ CallInc(p, o.m)) \/ (o.op = "probe" /\ CallProbe(p))
             /\ opi' = [opi EXCEPT ![p] = @ + 1]
AllDone == \A p \in Procs : pc[p] = "idle" /\ opi[p] > Len(Script[p + 1])
NIncs == Cardinality({<<p, i>> \in Procs \X (1..8) : i <= Len(Script[p + 1]) /\ Script[p + 1][i].op = "inc"})
InvFinalCount == AllDone => joined[1] = NIncs
MCNext == \/ \E p \in Procs : MCCall(p) \/ (Step(p) /\ UNCHANGED opi)
          \/ (AllDone /\ UNCHANGED mcvars)
=============================================================================
