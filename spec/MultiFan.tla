------------------------------ MODULE MultiFan ------------------------------
(***************************************************************************)
(* Protocol model of a Multi channel's fan-out against listener churn        *)
(* (/repo/src/multi/channels/{arc,ogre_arc}/*.rs send_derived,               *)
(*  /repo/src/streams_manager.rs create_stream_id / report_stream_dropped /  *)
(*  sync_vacant_and_used_streams):                                           *)
(*   used[0..S-1]  the live-listener list, MAX-terminated, rewritten in      *)
(*                 place entry by entry (under a lock senders do not take)   *)
(*   count         used_streams_count, bumped before / after the rebuild     *)
(*   sender, Kind = "arc":  walk used[] until MAX, publishing a clone into   *)
(*                 each listener's queue                                     *)
(*   sender, Kind = "ogre": n := count; refs += n; for i < n: if used[i] #   *)
(*                 MAX publish a raw copy                                    *)
(* C03 / C10 / C17: a listener that exists throughout gets every event       *)
(* exactly once; with the ogre kind the references handed out equal the      *)
(* references added (no slot pinned).                                        *)
(***************************************************************************)
EXTENDS Integers, Sequences, FiniteSets, TLC

CONSTANTS Kind,        \* "arc" | "ogre"
          S,           \* MAX_STREAMS
          Initial,     \* ids of the listeners that exist from the start (a set)
          Events,      \* events the producer sends (a sequence)
          Churn        \* "none" | "add" | "remove": what the churner thread does once

MAX == 99
Ids == 0..S-1

VARIABLES used, count, vacant, q, refs, copies,
          spc, sreg,           \* sender: pc, [e (index into Events), i, n]
          cpc, creg            \* churner: pc, [id, target (sequence to be written), k]

vars == <<used, count, vacant, q, refs, copies, spc, sreg, cpc, creg>>

SortedSeq(set) == LET RECURSIVE F(_)
                      F(s) == IF s = {} THEN <<>> ELSE LET m == CHOOSE x \in s : \A y \in s : x <= y IN <<m>> \o F(s \ {m})
                  IN F(set)
ListOf(live) == LET l == SortedSeq(live) IN [i \in 0..S-1 |-> IF i + 1 <= Len(l) THEN l[i + 1] ELSE MAX]

Init == /\ used = ListOf(Initial) /\ count = Cardinality(Initial) /\ vacant = Ids \ Initial
        /\ q = [id \in Ids |-> <<>>] /\ refs = [e \in 1..Len(Events) |-> 0] /\ copies = [e \in 1..Len(Events) |-> 0]
        /\ spc = "next" /\ sreg = [e |-> 0, i |-> 0, n |-> 0]
        /\ cpc = (IF Churn = "none" THEN "done" ELSE "start")
        /\ creg = [id |-> MAX, target |-> ListOf({}), k |-> 0]

\* ---- the producer
SendStart == /\ spc = "next" /\ sreg.e < Len(Events)
             /\ LET e == sreg.e + 1 IN
                IF Kind = "ogre"
                THEN /\ sreg' = [e |-> e, i |-> 0, n |-> count] /\ refs' = [refs EXCEPT ![e] = 1 + count]     \* the producer's own handle + n
                ELSE /\ sreg' = [e |-> e, i |-> 0, n |-> S] /\ UNCHANGED refs
             /\ spc' = "loop"
             /\ UNCHANGED <<used, count, vacant, q, copies, cpc, creg>>
SendVisit == /\ spc = "loop" /\ sreg.i < sreg.n
             /\ LET id == used[sreg.i] IN
                IF id = MAX
                THEN IF Kind = "arc" THEN spc' = "end" /\ UNCHANGED <<q, copies, sreg>>       \* sentinel: stop
                     ELSE sreg' = [sreg EXCEPT !.i = @ + 1] /\ UNCHANGED <<q, copies, spc>>   \* ogre: skip the entry
                ELSE /\ q' = [q EXCEPT ![id] = Append(@, Events[sreg.e])]
                     /\ copies' = [copies EXCEPT ![sreg.e] = @ + 1]
                     /\ sreg' = [sreg EXCEPT !.i = @ + 1] /\ UNCHANGED spc
             /\ UNCHANGED <<used, count, vacant, refs, cpc, creg>>
SendLoopEnd == /\ spc = "loop" /\ sreg.i >= sreg.n /\ spc' = "end"
               /\ UNCHANGED <<used, count, vacant, q, refs, copies, sreg, cpc, creg>>
SendEnd == /\ spc = "end"          \* the producer's own handle is dropped
           /\ refs' = IF Kind = "ogre" THEN [refs EXCEPT ![sreg.e] = @ - 1] ELSE refs
           /\ spc' = "next"
           /\ UNCHANGED <<used, count, vacant, q, copies, sreg, cpc, creg>>

\* ---- the churner: create_stream_id / report_stream_dropped, then the list rebuild entry by entry
Live == Ids \ vacant
ChurnStart == /\ cpc = "start"
              /\ IF Churn = "add"
                 THEN LET id == CHOOSE x \in vacant : \A y \in vacant : x <= y IN
                      /\ count' = count + 1 /\ vacant' = vacant \ {id}
                      /\ creg' = [id |-> id, target |-> ListOf(Live \cup {id}), k |-> 0] /\ UNCHANGED q
                 ELSE LET id == CHOOSE x \in Live : \A y \in Live : x <= y IN
                      /\ q' = [q EXCEPT ![id] = <<>>]                     \* drop_resources discards what the listener left unconsumed
                      /\ count' = count - 1 /\ vacant' = vacant \cup {id}
                      /\ creg' = [id |-> id, target |-> ListOf(Live \ {id}), k |-> 0]
              /\ cpc' = "sync"
              /\ UNCHANGED <<used, refs, copies, spc, sreg>>
SyncWrite == /\ cpc = "sync" /\ creg.k < S
             /\ used' = [used EXCEPT ![creg.k] = creg.target[creg.k]]
             /\ creg' = [creg EXCEPT !.k = @ + 1]
             /\ UNCHANGED <<count, vacant, q, refs, copies, spc, sreg, cpc>>
SyncEnd == /\ cpc = "sync" /\ creg.k >= S /\ cpc' = "done"
           /\ UNCHANGED <<used, count, vacant, q, refs, copies, spc, sreg, creg>>

AllDone == spc = "next" /\ sreg.e = Len(Events) /\ cpc = "done"
Next == SendStart \/ SendVisit \/ SendLoopEnd \/ SendEnd \/ ChurnStart \/ SyncWrite \/ SyncEnd \/ (AllDone /\ UNCHANGED vars)

\* (C10) state constraint selecting the sequential histories: the producer is not inside its fan-out loop while the list is being rebuilt
Sequential == (spc \in {"loop", "end"}) => (cpc \in {"start", "done"})

\* ---- properties
Throughout == IF Churn = "remove" THEN Initial \ {CHOOSE x \in Initial : \A y \in Initial : x <= y} ELSE Initial
CountIn(s, v) == Cardinality({i \in 1..Len(s) : s[i] = v})
\* C03 / C17: listeners that exist throughout get every event exactly once, in order
InvThroughout == AllDone => \A id \in Throughout : q[id] = Events
InvNoDuplicates == \A id \in Ids : \A i \in 1..Len(Events) : CountIn(q[id], Events[i]) <= 1
\* C17 / C05: every reference added was handed out (otherwise the payload slot is never returned to the pool)
InvNoPhantomRefs == (AllDone /\ Kind = "ogre") => \A e \in 1..Len(Events) : refs[e] = copies[e]
=============================================================================
