----------------------------- MODULE MC_OgreArc -----------------------------
EXTENDS OgreArc
CONSTANT Script
VARIABLE opi
mcvars == <<vars, opi>>
Cl(f, t) == [op |-> "clone", h |-> f, to |-> <<t>>]
In(f, ts) == [op |-> "incr", h |-> f, to |-> ts]
Dr(h) == [op |-> "drop", h |-> h, to |-> <<>>]
Rf(h) == [op |-> "refs", h |-> h, to |-> <<>>]
\* a and b exist at the start (new_with_clones::<2>); every thread only uses handles it owns
Script_3t == << <<Cl("a", "c"), Dr("a"), Rf("c"), Dr("c")>>, <<Cl("b", "d"), Dr("d"), Dr("b")>>, <<>> >>
Script_3t2 == << <<In("a", <<"c", "d">>), Dr("c"), Dr("a"), Dr("d")>>, <<Rf("b"), Cl("b", "e"), Dr("b")>>, <<>> >>
\* one handle cloned / bulk-incremented through a shared reference by two threads at once
Script_shared == << <<Cl("a", "c"), Dr("c")>>, <<In("a", <<"d", "e">>), Dr("d"), Dr("e")>>, <<Rf("a")>> >>
Script_hand == << <<Cl("a", "c"), Dr("a")>>, <<Dr("b")>>, <<>> >>
MCInit == Init /\ opi = [p \in Procs |-> 1]
MCCreate == /\ refs = 0 /\ live = {} /\ ~freed /\ \A p \in Procs : opi[p] = 1 /\ pc[p] = "idle"
            /\ Create({"a", "b"}) /\ UNCHANGED <<pc, reg, opi>>
MCCall(p) == /\ opi[p] <= Len(Script[p + 1]) /\ refs + Cardinality(live) > 0
             /\ LET o == Script[p + 1][opi[p]] IN
                \/ o.op = "clone" /\ CallClone(p, o.h, o.to[1])
                \/ o.op = "incr" /\ CallIncr(p, o.h, o.to)
                \/ o.op = "drop" /\ CallDrop(p, o.h)
                \/ o.op = "refs" /\ CallRefs(p, o.h)
             /\ opi' = [opi EXCEPT ![p] = @ + 1]
AllDone == \A p \in Procs : pc[p] = "idle" /\ opi[p] > Len(Script[p + 1])
\* once every script finished (all handles dropped) the value must be destroyed, exactly once (freed is set once)
InvFreedAtEnd == AllDone => ((live = {}) => freed)
MCNext == \/ MCCreate
          \/ \E p \in Procs : MCCall(p) \/ (Step(p) /\ UNCHANGED opi)
          \/ (AllDone /\ UNCHANGED mcvars)
=============================================================================
