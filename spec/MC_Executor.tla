---------------------------- MODULE MC_Executor ----------------------------
EXTENDS Executor
ItemsA == <<"ok", "err", "slow", "ok">>
ItemsB == <<"err", "slowerr", "ok", "slow">>
ItemsC == <<"ok", "err", "ok">>
ItemsD == <<"slow", "ok", "slowerr", "err", "ok">>
=============================================================================
