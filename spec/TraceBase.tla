----------------------------- MODULE TraceBase -----------------------------
(***************************************************************************)
(* Common plumbing of every trace specification: the recorded events, the   *)
(* cursor, and the bookkeeping of L1 violations found on the way.           *)
(*   register 42: sequence of <<violated invariant, line>>                  *)
(***************************************************************************)
EXTENDS Naturals, Sequences, TLC, Json, IOUtils

Rec == ndJsonDeserialize(IOEnv.TRACE)

VARIABLES l,     \* next line of Rec to be matched
          bad    \* "" or the name of the L1 invariant the current run has violated (the rest of that run is skipped)

Ev == Rec[l]
P  == Ev.t
IsOp(fn, fld, o) == Ev.k = "op" /\ Ev.fn = fn /\ Ev.fld = fld /\ Ev.o = o
IsY(fn, tag)     == Ev.k = "op" /\ Ev.fn = fn /\ Ev.fld = tag /\ Ev.o = "y"
SeqOf(a) == [i \in 1..Len(a) |-> a[i]]

TBInit == l = 1 /\ bad = "" /\ TLCSet(42, <<>>)

Skipping == bad # "" /\ Ev.k # "reset"

\* verdicts carried by the event itself (the harness compared a value with what the real code returned)
\* (a run that ended with a thread stuck for ever inside the code under test -- spinning on something nobody will ever change --
\*  carries `hard`; only the checks of the properties that promise non-blocking operations count it as a verdict)
EvBad == IF Ev.k \in {"ret", "final"} /\ "bij" \in DOMAIN Ev.x /\ ~Ev.x.bij THEN "InvBijection"
         ELSE IF Ev.k = "panic" THEN "NoPanic"
         ELSE IF Ev.k = "final" /\ "hard" \in DOMAIN Ev.x /\ Ev.x.hard THEN "InvNoStall"
         \* (containers holding instrumented payloads: a payload read while not alive / found overwritten, or destroyed more than once)
         ELSE IF Ev.k = "final" /\ "anomalies" \in DOMAIN Ev.x /\ Len(Ev.x.anomalies) > 0 THEN "InvNoUseAfterFree"
         ELSE IF Ev.k = "final" /\ "drops" \in DOMAIN Ev.x /\ (\E i \in 1..Len(Ev.x.drops) : Ev.x.drops[i][2] > 1) THEN "InvDestroyedAtMostOnce"
         ELSE ""
Worst(a, b) == IF a # "" THEN a ELSE b
IsNopCall == Ev.k = "call" /\ Ev.x.op = "nop"
IsNopRet  == Ev.k = "ret" /\ Ev.fn = "nop"

NoteBad(b) == b # "" => TLCSet(42, Append(TLCGet(42), <<b, l>>))

\* the driver compares the matched length with the number of lines and reads the violations
TraceAccepted ==
    LET d == TLCGet("stats").diameter IN
    /\ PrintT(<<"TRACE-VIOLATIONS", TLCGet(42)>>)
    /\ IF d - 1 = Len(Rec) THEN PrintT(<<"TRACE-OK", Len(Rec)>>)
       ELSE PrintT(<<"TRACE-MISMATCH", d, Rec[d]>>)
=============================================================================
