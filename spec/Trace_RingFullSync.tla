------------------------- MODULE Trace_RingFullSync -------------------------
EXTENDS RingFullSync, TraceBase

tvars == <<vars, l, bad>>
WV(x) == x % W

TraceInit == Init /\ TBInit

OpName(x) == IF x \in {"alloc", "alloc_with"} THEN "deq" ELSE IF x \in {"dealloc_id", "dealloc_ref", "dealloc_last"} THEN "enq" ELSE x

TReset == Ev.k = "reset" /\ ResetTo(WV(Ev.x.origin))
TCall  == Ev.k = "call" /\ ~IsNopCall /\ Call(P, [op |-> OpName(Ev.x.op), v |-> Ev.x.v, i |-> Ev.x.i + 1])
TRet   == /\ Ev.k = "ret" /\ ~IsNopRet
          /\ pc[P] = "ret"
          /\ reg[P].res.ok = Ev.x.ok
          /\ (Ev.x.ok /\ OpName(Ev.fn) \in {"deq", "len", "enq"} /\ Ev.fn # "dealloc_id" /\ Ev.fn # "dealloc_ref" /\ Ev.fn # "dealloc_last") => (reg[P].res.v = WV(Ev.x.v))
          /\ Ret(P)
Stutter == UNCHANGED vars

IsLock(fn)   == IsOp(fn, "concurrency_guard", "cas")
IsUnlock(fn) == IsOp(fn, "concurrency_guard", "st")

TOp ==
  \/ IsLock("leak_slot_internal") /\ Ev.ok /\ EnqLock(P)
  \/ IsLock("leak_slot_internal") /\ ~Ev.ok /\ pc[P] = "F1" /\ lock /\ Stutter
  \/ IsUnlock("publish_leaked_internal") /\ pc[P] = "F2" /\ reg[P].res.ok /\ Unlock(P)
  \/ IsUnlock("leak_slot_internal") /\ pc[P] = "F2" /\ ~reg[P].res.ok /\ Unlock(P)
  \/ IsLock("consume_leaking_internal") /\ Ev.ok /\ DeqLock(P)
  \/ IsLock("consume_leaking_internal") /\ ~Ev.ok /\ pc[P] = "G1" /\ lock /\ Stutter
  \/ IsY("available_elements_count", "fsm.len.tail") /\ pc[P] = "G2" /\ DeqReadTail(P)
  \/ IsY("available_elements_count", "fsm.len.head") /\ pc[P] = "G3" /\ DeqReadHead(P)
  \/ IsUnlock("consume_movable") /\ pc[P] = "G4" /\ reg[P].res.ok /\ Unlock(P)
  \/ IsUnlock("consume_leaking_internal") /\ pc[P] = "G4" /\ ~reg[P].res.ok /\ Unlock(P)
  \/ IsY("available_elements_count", "fsm.len.tail") /\ pc[P] = "L1" /\ LenReadTail(P)
  \/ IsY("available_elements_count", "fsm.len.head") /\ pc[P] = "L2" /\ LenReadHead(P)

TFinal == /\ Ev.k = "final"
          /\ (AllIdle /\ ~Ev.x.hard) => (SeqOf(Ev.x.drained) = ActualQ)
          /\ Stutter

BadOf == IF ~InvLinearizable THEN "InvLinearizable"
         ELSE IF ~InvBounds THEN "InvBounds"
         ELSE IF ~InvContents THEN "InvContents"
         ELSE ""

TraceNext == /\ l <= Len(Rec)
             /\ l' = l + 1
             /\ IF Skipping
                THEN UNCHANGED <<vars, bad>>
                ELSE /\ (((IsNopCall \/ IsNopRet) /\ Stutter) \/ TReset \/ TCall \/ TRet \/ TOp \/ TFinal)
                     /\ bad' = Worst(EvBad, BadOf')
                     /\ NoteBad(bad')

TraceSpec == TraceInit /\ [][TraceNext]_tvars
=============================================================================
