--------------------------- MODULE Trace_IncAvg ---------------------------
(* Trace validation of the real incremental-average metric against IncAvg (L2) plus the L1 rules of C19. *)
EXTENDS IncAvg, TraceBase

VARIABLES started, returned    \* number of `inc` calls started / returned so far (ghost, for the probe window)
tvars == <<vars, started, returned, l, bad>>
CM == 1048576   \* values are logged modulo 2^20: the low bits of the word are the counter

TraceInit == Init /\ started = 0 /\ returned = 0 /\ TBInit
TReset == Ev.k = "reset" /\ joined' = <<0, <<>>>> /\ pc' = [p \in Procs |-> "idle"] /\ reg' = [p \in Procs |-> NoReg] /\ done' = <<>> /\ started' = 0 /\ returned' = 0
Stutter == UNCHANGED <<vars, started, returned>>

\* measurements are logged as floats by the harness but the model only needs their identity: use the line of the call
TCall == /\ Ev.k = "call" /\ ~IsNopCall
         /\ \/ Ev.x.op = "inc" /\ CallInc(P, l) /\ started' = started + 1 /\ UNCHANGED returned
            \/ Ev.x.op = "probe" /\ CallProbe(P) /\ UNCHANGED <<started, returned>>
TOp ==
  \/ IsOp("atomic_compute", "joined", "ld") /\ Ev.r = joined[1] % CM /\ IncLoad(P) /\ UNCHANGED <<started, returned>>
  \/ IsOp("atomic_compute", "joined", "cas") /\ Ev.ok /\ Ev.a = reg[P].cur[1] % CM /\ Ev.b = (reg[P].cur[1] + 1) % CM /\ IncCasOk(P) /\ UNCHANGED <<started, returned>>
  \/ IsOp("atomic_compute", "joined", "cas") /\ ~Ev.ok /\ Ev.r = joined[1] % CM /\ IncCasFail(P) /\ UNCHANGED <<started, returned>>
  \/ (IsOp("probe", "", "ld") \/ IsOp("probe", "joined", "ld")) /\ Ev.r = joined[1] % CM /\ ProbeLoad(P) /\ UNCHANGED <<started, returned>>
TRet == /\ Ev.k = "ret" /\ ~IsNopRet
        /\ \/ Ev.fn = "inc" /\ pc[P] = "ret" /\ Ret(P) /\ returned' = returned + 1 /\ UNCHANGED started
           \/ Ev.fn = "probe" /\ pc[P] = "pret" /\ reg[P].res[1] = Ev.x.v /\ Ret(P) /\ UNCHANGED <<started, returned>>
TFinal == Ev.k = "final" /\ Stutter
TOther == Ev.k \in {"panic", "wake"} /\ Stutter

AllIdle == \A p \in Procs : pc[p] = "idle"
EvBadA ==
    IF Ev.k = "ret" /\ Ev.fn = "probe" /\ ~Ev.x.consistent THEN "InvProbePairConsistent"
    ELSE IF Ev.k = "ret" /\ Ev.fn = "probe" /\ Ev.x.v > started THEN "InvProbeCountWindow"
    ELSE IF Ev.k = "final" /\ AllIdle /\ Ev.x.count # Ev.x.expected THEN "InvNoLostUpdate"
    ELSE IF Ev.k = "final" /\ AllIdle /\ ~Ev.x.consistent THEN "InvFoldIsPermutation"
    ELSE IF Ev.k = "final" /\ AllIdle /\ ~Ev.x.mean_ok THEN "InvMeanWithinTolerance"
    ELSE EvBad
\* the probe's count must also be at least the number of incs that had returned before the probe was called;
\* that lower bound is checked through the model: reg[P].res is the word loaded between call and return

TraceNext == /\ l <= Len(Rec)
             /\ l' = l + 1
             /\ IF Skipping
                THEN UNCHANGED <<vars, started, returned, bad>>
                ELSE /\ (((IsNopCall \/ IsNopRet) /\ Stutter) \/ TReset \/ TCall \/ TOp \/ TRet \/ TFinal \/ TOther)
                     /\ bad' = EvBadA
                     /\ NoteBad(bad')
TraceSpec == TraceInit /\ [][TraceNext]_tvars
=============================================================================
