CONSTANTS
  N = 2
  W = 8
  Procs = {0, 1, 2, 3}
  Origins = {0, 1, 2, 3, 4, 5, 6, 7}
  OverflowChecks = TRUE
  RelaxEmpty = TRUE
  Prefill = FALSE
  Script <- Script_2p2c
INIT MCInit
NEXT MCNext
INVARIANTS TypeOK InvBounds InvLinearizable InvContents NoPanic
CHECK_DEADLOCK TRUE
