--------------------------- MODULE Trace_SpinStack ---------------------------
(* Trace validation of the real atomic-flag stack against SpinStack (L2) with the LinQueue(lifo) monitor (L1). *)
EXTENDS SpinStack, TraceBase

tvars == <<vars, l, bad>>
TraceInit == Init /\ TBInit
TReset == Ev.k = "reset" /\ Reset
OpName(x) == IF x = "enq" THEN "push" ELSE IF x = "deq" THEN "pop" ELSE x
TCall == Ev.k = "call" /\ ~IsNopCall /\ Call(P, [op |-> OpName(Ev.x.op), v |-> Ev.x.v])
TRet == /\ Ev.k = "ret" /\ ~IsNopRet
        /\ pc[P] = "ret"
        /\ reg[P].res.ok = Ev.x.ok
        /\ (reg[P].op.op = "pop" /\ Ev.x.ok) => reg[P].res.v = Ev.x.v
        /\ Ret(P)
Stutter == UNCHANGED vars
TOp ==
  \/ IsOp("push", "flag", "sw") /\ Ev.r = 0 /\ PushSwapOk(P)
  \/ IsOp("push", "flag", "sw") /\ Ev.r = 1 /\ pc[P] = "P1" /\ flag /\ Stutter
  \/ IsY("push", "stack.push.write") /\ PushWrite(P)
  \/ IsY("push", "stack.push.head") /\ PushHead(P)
  \/ IsOp("push", "flag", "st") /\ Ev.a = 0 /\ PushUnlock(P)
  \/ IsOp("pop", "flag", "sw") /\ Ev.r = 0 /\ PopSwapOk(P)
  \/ IsOp("pop", "flag", "sw") /\ Ev.r = 1 /\ pc[P] = "Q1" /\ flag /\ Stutter
  \/ IsY("pop", "stack.pop.head") /\ PopHead(P)
  \/ IsY("pop", "stack.pop.read") /\ PopRead(P)
  \/ IsOp("pop", "flag", "st") /\ Ev.a = 0 /\ PopUnlock(P)
TFinal == /\ Ev.k = "final"
          /\ (AllIdle /\ ~Ev.x.hard) => (SeqOf(Ev.x.drained) = ActualS)
          /\ Stutter
BadOf == IF ~InvLinearizable THEN "InvLinearizable"
         ELSE IF ~InvBounds THEN "InvBounds"
         ELSE IF ~InvContents THEN "InvContents"
         ELSE ""
TraceNext == /\ l <= Len(Rec)
             /\ l' = l + 1
             /\ IF Skipping
                THEN UNCHANGED <<vars, bad>>
                ELSE /\ (((IsNopCall \/ IsNopRet) /\ Stutter) \/ TReset \/ TCall \/ TRet \/ TOp \/ TFinal)
                     /\ bad' = Worst(EvBad, BadOf')
                     /\ NoteBad(bad')
TraceSpec == TraceInit /\ [][TraceNext]_tvars
=============================================================================
