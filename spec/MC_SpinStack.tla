---------------------------- MODULE MC_SpinStack ----------------------------
EXTENDS SpinStack
CONSTANT Script
VARIABLE opi
mcvars == <<vars, opi>>
Pu(v) == [op |-> "push", v |-> v]
Po    == [op |-> "pop", v |-> 0]
Script_3t == << <<Pu(11), Pu(12), Po>>, <<Pu(21), Po, Pu(22)>>, <<Po, Po>> >>
Script_4t == << <<Pu(11), Po>>, <<Pu(21), Pu(22)>>, <<Po, Po>>, <<Pu(41), Po>> >>
Script_2t == << <<Pu(11), Pu(12), Pu(13), Po, Po>>, <<Po, Pu(21), Po, Po>> >>
MCInit == Init /\ opi = [p \in Procs |-> 1]
MCCall(p) == /\ opi[p] <= Len(Script[p + 1])
             /\ Call(p, Script[p + 1][opi[p]])
             /\ opi' = [opi EXCEPT ![p] = @ + 1]
AllDone == \A p \in Procs : pc[p] = "idle" /\ opi[p] > Len(Script[p + 1])
MCNext == \/ \E p \in Procs : MCCall(p) \/ (Step(p) /\ UNCHANGED opi)
          \/ (AllDone /\ UNCHANGED mcvars)
=============================================================================
