------------------------------- MODULE MmapLog -------------------------------
(***************************************************************************)
(* L2 specification of the mmap log topic                                    *)
(* (/repo/src/ogre_std/ogre_queues/log_topics/mmap_meta.rs) and of the       *)
(* subscriptions the log Multi channel makes                                 *)
(* (/repo/src/multi/channels/reference/mmap_log.rs):                         *)
(*   publish:   slot := publisher_tail.fetch_add(1); write the slot;         *)
(*              spin until consumer_tail CAS(slot -> slot+1) succeeds        *)
(*              (publication strictly in slot order)                         *)
(*   subscribe: new-only -> head := consumer_tail; joined -> head := 0;      *)
(*              split -> t := consumer_tail; old = [0, t) fixed, new = from t*)
(*   consume:   h := head.fetch_add(1); (dynamic) t := consumer_tail.load;   *)
(*              if h >= t: recede head (CAS h+1 -> h), answer empty;         *)
(*              else yield log[h]                                            *)
(* C09: every listener yields a contiguous, gap-free, duplicate-free run of  *)
(* the one log; joined = everything; an old/new pair partitions it.          *)
(***************************************************************************)
EXTENDS Integers, Sequences, FiniteSets, TLC

CONSTANTS Pubs,        \* publisher ids
          PerPub,      \* events per publisher
          Subs         \* subscriber slots: each is created at some point with some kind

VARIABLES ptail, ctail, log,      \* the topic
          ppc, preg,              \* publishers: pc, [left, slot, k]
          kind, head, ftail, got, spc, sreg, mate,   \* subscribers
          nextsub

vars == <<ptail, ctail, log, ppc, preg, kind, head, ftail, got, spc, sreg, mate, nextsub>>
Total == Cardinality(Pubs) * PerPub
None == -1

Init == /\ ptail = 0 /\ ctail = 0 /\ log = [i \in 0..Total-1 |-> <<None, 0>>]
        /\ ppc = [p \in Pubs |-> "idle"] /\ preg = [p \in Pubs |-> [left |-> PerPub, slot |-> 0, k |-> 0]]
        /\ kind = [s \in Subs |-> "none"] /\ head = [s \in Subs |-> 0] /\ ftail = [s \in Subs |-> 0] /\ got = [s \in Subs |-> <<>>]
        /\ spc = [s \in Subs |-> "idle"] /\ sreg = [s \in Subs |-> 0] /\ mate = [s \in Subs |-> None]
        /\ nextsub = 0

\* ---- publishers
PubFA(p) == /\ ppc[p] = "idle" /\ preg[p].left > 0
            /\ preg' = [preg EXCEPT ![p].slot = ptail, ![p].left = @ - 1, ![p].k = @ + 1] /\ ptail' = ptail + 1
            /\ ppc' = [ppc EXCEPT ![p] = "fill"]
            /\ UNCHANGED <<ctail, log, kind, head, ftail, got, spc, sreg, mate, nextsub>>
Fill(p) == /\ ppc[p] = "fill"
           /\ log' = [log EXCEPT ![preg[p].slot] = <<p, preg[p].k>>] /\ ppc' = [ppc EXCEPT ![p] = "cas"]
           /\ UNCHANGED <<ptail, ctail, preg, kind, head, ftail, got, spc, sreg, mate, nextsub>>
PubCAS(p) == /\ ppc[p] = "cas" /\ ctail = preg[p].slot
             /\ ctail' = ctail + 1 /\ ppc' = [ppc EXCEPT ![p] = "idle"]
             /\ UNCHANGED <<ptail, log, preg, kind, head, ftail, got, spc, sreg, mate, nextsub>>

\* ---- subscriptions (each one load of consumer_tail)
Subscribe(k) ==
    /\ nextsub \in Subs /\ (k = "split" => nextsub + 1 \in Subs)
    /\ IF k = "new" THEN /\ kind' = [kind EXCEPT ![nextsub] = "dyn"] /\ head' = [head EXCEPT ![nextsub] = ctail]
                         /\ nextsub' = nextsub + 1 /\ UNCHANGED <<ftail, mate>>
       ELSE IF k = "joined" THEN /\ kind' = [kind EXCEPT ![nextsub] = "dyn"] /\ head' = [head EXCEPT ![nextsub] = 0]
                                 /\ nextsub' = nextsub + 1 /\ UNCHANGED <<ftail, mate>>
       ELSE /\ kind' = [kind EXCEPT ![nextsub] = "fixed", ![nextsub + 1] = "dyn"]
            /\ head' = [head EXCEPT ![nextsub] = 0, ![nextsub + 1] = ctail]
            /\ ftail' = [ftail EXCEPT ![nextsub] = ctail]
            /\ mate' = [mate EXCEPT ![nextsub] = nextsub + 1, ![nextsub + 1] = nextsub]
            /\ nextsub' = nextsub + 2
    /\ UNCHANGED <<ptail, ctail, log, ppc, preg, got, spc, sreg>>

\* ---- consumption by subscriber s
SubFA(s) == /\ kind[s] # "none" /\ spc[s] = "idle"
            /\ sreg' = [sreg EXCEPT ![s] = head[s]] /\ head' = [head EXCEPT ![s] = @ + 1] /\ spc' = [spc EXCEPT ![s] = "load"]
            /\ UNCHANGED <<ptail, ctail, log, ppc, preg, kind, ftail, got, mate, nextsub>>
SubLoad(s) == /\ spc[s] = "load"
              /\ LET t == IF kind[s] = "dyn" THEN ctail ELSE ftail[s] IN
                 IF sreg[s] >= t
                 THEN spc' = [spc EXCEPT ![s] = "recede"] /\ UNCHANGED got
                 ELSE got' = [got EXCEPT ![s] = Append(@, sreg[s])] /\ spc' = [spc EXCEPT ![s] = "idle"]
              /\ UNCHANGED <<ptail, ctail, log, ppc, preg, kind, head, ftail, sreg, mate, nextsub>>
SubRecede(s) == /\ spc[s] = "recede" /\ head[s] = sreg[s] + 1
                /\ head' = [head EXCEPT ![s] = sreg[s]] /\ spc' = [spc EXCEPT ![s] = "idle"]
                /\ UNCHANGED <<ptail, ctail, log, ppc, preg, kind, ftail, got, sreg, mate, nextsub>>

PubsDone == \A p \in Pubs : ppc[p] = "idle" /\ preg[p].left = 0
Next == (\E p \in Pubs : PubFA(p) \/ Fill(p) \/ PubCAS(p))
        \/ (\E k \in {"new", "joined", "split"} : Subscribe(k))
        \/ (\E s \in Subs : SubFA(s) \/ SubLoad(s) \/ SubRecede(s))

\* ---- properties
Contig(seq) == \A i \in 1..Len(seq)-1 : seq[i + 1] = seq[i] + 1
\* a listener only ever sees completely written, published slots, as one gap-free, duplicate-free, ascending run (one order for all)
InvPublishedOnly == \A s \in Subs : \A i \in 1..Len(got[s]) : got[s][i] < ctail /\ log[got[s][i]][1] # None
InvOneOrder == \A s \in Subs : Contig(got[s])
\* publication order extends each publisher's send order
InvProducerOrder == \A i, j \in 0..Total-1 : (i < j /\ j < ctail /\ log[i][1] = log[j][1]) => log[i][2] < log[j][2]
\* an old/new pair splits the history at one point: old = [0, t), new starts at t, nothing in both
InvSplit == \A s \in Subs : kind[s] = "fixed" /\ mate[s] # None =>
                /\ (\A i \in 1..Len(got[s]) : got[s][i] < ftail[s])
                /\ (got[s] # <<>> => got[s][1] = 0)
                /\ (got[mate[s]] # <<>> => got[mate[s]][1] = ftail[s])
\* counters
InvTails == ctail <= ptail /\ ptail <= Total
=============================================================================
