-------------------------- MODULE Trace_MultiChan --------------------------
(***************************************************************************)
(* Trace validation of the Arc-based atomic Multi channel against           *)
(* MultiChan: every scheduling point of the real code -- the atomic         *)
(* operations of the listeners' rings with operands and results, the        *)
(* streams manager's counters, locks and yield points, the vacant-id        *)
(* queue's guard -- must be the next step of the recording thread in        *)
(* MultiChan, and what the API returned must be what the model computed.    *)
(* Entry points covered: send, poll (alone or inside a `drive` task),       *)
(* create_stream_for_new_events, dropping a stream, cancel_all_streams,     *)
(* close (gracefully_end_all_streams + is_channel_open + running count).    *)
(* Which listener's ring an operation touches is NOT logged: it follows     *)
(* from the recording thread's position in the model (the entry of the      *)
(* live-listener list it read / the stream it polls).                       *)
(* The harness numbers streams in creation order; `hid` maps that number    *)
(* to the channel's stream id (reported when the stream is created).        *)
(***************************************************************************)
EXTENDS MultiChan, TraceBase

VARIABLES drv,     \* per thread: the drive in progress [on, s (channel stream id), max, got]
          hid      \* harness stream number (0-based) -> channel stream id, as a sequence

tvars == <<mvars, drv, hid, l, bad>>
WV(x) == x % W
NoDrv == [on |-> FALSE, s |-> 0, max |-> 0, got |-> 0]
Sid(h) == hid[h + 1]

TraceInit == MInit({}) /\ drv = [p \in Procs |-> NoDrv] /\ hid = <<>> /\ TBInit

TReset == /\ Ev.k = "reset"
          /\ ResetTo(0..(Ev.x.streams - 1))
          /\ drv' = [p \in Procs |-> NoDrv]
          /\ hid' = [i \in 1..Ev.x.streams |-> i - 1]

Stutter == UNCHANGED <<mvars, drv, hid>>
Same == UNCHANGED <<drv, hid>>

\* operations the model does not describe step by step (length / count queries): their events are skipped while the thread is inside them
OtherOps == {"pending", "running", "is_open", "nop"}
InOther(p) == pc[p] = "other"

TCall == /\ Ev.k = "call" /\ ~IsNopCall
         /\ IF Ev.x.op = "send" THEN CallSend(P, Ev.x.v) /\ Same
            ELSE IF Ev.x.op = "poll" THEN CallPoll(P, Sid(Ev.x.s)) /\ Same
            ELSE IF Ev.x.op = "cancel_all" THEN CallCancel(P) /\ Same
            ELSE IF Ev.x.op = "create" THEN CallCreate(P) /\ Same
            ELSE IF Ev.x.op = "drop_stream" THEN CallDrop(P, Sid(Ev.x.s)) /\ Same
            ELSE IF Ev.x.op = "close" THEN CallClose(P) /\ Same
            ELSE IF Ev.x.op = "drive"
            THEN /\ notified' = [notified EXCEPT ![P] = FALSE]          \* the task clears its notification before its first poll
                 /\ drv' = [drv EXCEPT ![P] = [on |-> TRUE, s |-> Sid(Ev.x.s), max |-> Ev.x.max, got |-> 0]]
                 /\ UNCHANGED <<ring, sm, waker, wlock, keep, pc, reg, gh, og, hid>>
            ELSE /\ pc[P] = "idle" /\ pc' = [pc EXCEPT ![P] = "other"]
                 /\ UNCHANGED <<ring, sm, wk, reg, gh, og, drv, hid>>

\* return of a poll: the model's result is the recorded one; inside a drive an item with more to come clears the notification at once
TRetPoll ==
    /\ Ev.fn = "poll" /\ pc[P] = "cret"
    /\ reg[P].res = Ev.x.r
    /\ (Ev.x.r = "item") => (reg[P].rv = Ev.x.v)
    /\ pc' = [pc EXCEPT ![P] = "idle"]
    /\ got' = IF Ev.x.r = "item" THEN [got EXCEPT ![reg[P].sid] = Append(@, reg[P].rv)] ELSE got
    /\ UNCHANGED <<ring, sm, waker, wlock, keep, reg, old, owed, done, life, og, hid>>
    /\ IF drv[P].on /\ Ev.x.r = "item"
       THEN /\ drv' = [drv EXCEPT ![P].got = @ + 1]
            /\ notified' = IF drv[P].got + 1 < drv[P].max THEN [notified EXCEPT ![P] = FALSE] ELSE notified
       ELSE UNCHANGED <<drv, notified>>

TRetOther ==
    /\ Ev.fn # "poll"
    /\ IF Ev.fn \in {"send", "cancel_all", "drop_stream"}
       THEN pc[P] = "cret" /\ ChanRet(P) /\ Same
       ELSE IF Ev.fn = "close"       \* what the real code answered is what the model computed
       THEN /\ pc[P] = "cret" /\ reg[P].res = "closed"
            /\ Ev.x.v = reg[P].left /\ Ev.x.running = reg[P].run /\ (Ev.x.open <=> reg[P].open)
            /\ ChanRet(P) /\ Same
       ELSE IF Ev.fn = "create"
       THEN /\ pc[P] = "cret" /\ Len(Ev.x.ids) = 1 /\ Ev.x.ids[1] = reg[P].rv /\ Ev.x.s[1] = Len(hid)
            /\ ChanRet(P) /\ hid' = Append(hid, reg[P].rv) /\ UNCHANGED drv
       ELSE IF Ev.fn = "drive"
       THEN drv' = [drv EXCEPT ![P] = NoDrv] /\ UNCHANGED <<mvars, hid>>
       ELSE /\ pc[P] = "other" /\ pc' = [pc EXCEPT ![P] = "idle"]
            /\ UNCHANGED <<ring, sm, wk, reg, gh, og, drv, hid>>

TRet == Ev.k = "ret" /\ ~IsNopRet /\ (TRetPoll \/ TRetOther)

Ring == reg[P].sid
IsLockCas == Ev.k = "op" /\ Ev.o = "cas" /\ Ev.ok /\ Ev.a = 0 /\ Ev.b = 1
IsUnlockSt == Ev.k = "op" /\ Ev.o = "st" /\ Ev.a = 0

\* the listeners' rings: recorded operands / results must be the model's
RingOp ==
  \/ IsOp("leak_slot_internal", "enqueuer_tail", "fa") /\ pc[P] = "E1" /\ WV(Ev.r) = re[Ring] /\ EnqFA(P)
  \/ IsOp("leak_slot_internal", "head", "ld") /\ pc[P] = "E2" /\ WV(Ev.r) = rh[Ring] /\ EnqLoadHead(P)
  \/ IsOp("try_unleak_slot_internal", "enqueuer_tail", "cas") /\ Ev.ok /\ pc[P] = "E3" /\ WV(Ev.b) = reg[P].slot /\ EnqRecedeOk(P)
  \/ IsOp("try_unleak_slot_internal", "enqueuer_tail", "cas") /\ ~Ev.ok /\ pc[P] = "E3" /\ WV(Ev.r) = re[Ring] /\ EnqRecedeFail(P)
  \/ IsOp("try_publish_leaked_internal", "tail", "cas") /\ Ev.ok /\ pc[P] = "E5" /\ WV(Ev.a) = reg[P].slot /\ EnqPublish(P)
  \/ IsOp("consume_leaking_internal", "dequeuer_head", "fa") /\ pc[P] = "D1" /\ WV(Ev.r) = rdh[Ring] /\ DeqFA(P)
  \/ IsOp("consume_leaking_internal", "tail", "ld") /\ pc[P] = "D2" /\ WV(Ev.r) = rt[Ring] /\ DeqLoadTail(P)
  \/ IsOp("consume_leaking_internal", "dequeuer_head", "cas") /\ Ev.ok /\ pc[P] = "D3" /\ WV(Ev.b) = reg[P].slot /\ DeqRecedeOk(P)
  \/ IsOp("consume_leaking_internal", "dequeuer_head", "cas") /\ ~Ev.ok /\ pc[P] = "D3" /\ WV(Ev.r) = rdh[Ring] /\ DeqRecedeFail(P)
  \/ IsOp("release_leaked_internal", "head", "cas") /\ Ev.ok /\ pc[P] = "D4" /\ WV(Ev.a) = reg[P].slot /\ DeqRelease(P)

\* Kind = "ogre": the allocator's free list (the same AtomicMove functions, on another object: told apart by where the thread is),
\* the reference counter of the event in hand
OgreOp ==
  \/ IsOp("consume_leaking_internal", "dequeuer_head", "fa") /\ pc[P] = "A1" /\ WV(Ev.r) = pl.dh /\ PoolDeqFA(P)
  \/ IsOp("consume_leaking_internal", "tail", "ld") /\ pc[P] = "A2" /\ WV(Ev.r) = pl.t /\ PoolDeqLoadTail(P)
  \/ IsOp("release_leaked_internal", "head", "cas") /\ Ev.ok /\ pc[P] = "A3" /\ WV(Ev.a) = reg[P].ps /\ PoolDeqRelease(P)
  \/ IsOp("running_streams_count", "used_streams_count", "ld") /\ pc[P] = "S1" /\ Ev.r = count /\ SendCount(P)
  \/ IsOp("increment_references", "references_count", "fa") /\ pc[P] = "S2" /\ Ev.a = reg[P].n /\ Ev.r = refs[reg[P].v] /\ SendIncRefs(P)
  \/ IsOp("drop", "references_count", "fs") /\ pc[P] = "H1" /\ (reg[P].hv \in DOMAIN refs => Ev.r = refs[reg[P].hv]) /\ HandleDrop(P)
  \/ IsOp("leak_slot_internal", "enqueuer_tail", "fa") /\ pc[P] = "Z1" /\ WV(Ev.r) = pl.e /\ PoolEnqFA(P)
  \/ IsOp("leak_slot_internal", "head", "ld") /\ pc[P] = "Z2" /\ WV(Ev.r) = pl.h /\ PoolEnqLoadHead(P)
  \/ IsOp("try_publish_leaked_internal", "tail", "cas") /\ Ev.ok /\ pc[P] = "Z3" /\ WV(Ev.a) = reg[P].ps /\ PoolEnqPublish(P)

SpinOp ==   \* a publication / release / lock attempt before its turn: nothing changes
  \/ IsOp("release_leaked_internal", "head", "cas") /\ ~Ev.ok /\ pc[P] = "A3" /\ pl.h # reg[P].ps
  \/ IsOp("try_publish_leaked_internal", "tail", "cas") /\ ~Ev.ok /\ pc[P] = "Z3" /\ pl.t # reg[P].ps
  \/ IsOp("try_publish_leaked_internal", "tail", "cas") /\ ~Ev.ok /\ pc[P] = "E5" /\ rt[Ring] # reg[P].slot
  \/ IsOp("release_leaked_internal", "head", "cas") /\ ~Ev.ok /\ pc[P] = "D4" /\ rh[Ring] # reg[P].slot
  \/ Ev.k = "op" /\ Ev.o = "cas" /\ ~Ev.ok /\ pc[P] \in {"W2", "R2", "XW2", "P1", "FW2"} /\ wlock
  \/ Ev.k = "op" /\ Ev.o = "cas" /\ ~Ev.ok /\ pc[P] \in {"C3", "P5"} /\ vlock
  \/ Ev.k = "op" /\ Ev.o = "cas" /\ ~Ev.ok /\ pc[P] = "Y1" /\ slock

SmOp ==
  \/ IsY("send_derived", "multi.used.read") /\ FanRead(P)
  \/ IsY("wake_stream", "sm.wake.peek") /\ (WakePeek(P) \/ CancelWakePeek(P) \/ CloseWakePeek(P))
  \/ Ev.fn = "wake_stream" /\ IsLockCas /\ (WakeLock(P) \/ CancelWakeLock(P) \/ CloseWakeLock(P))
  \/ Ev.fn = "wake_stream" /\ IsUnlockSt /\ (WakeUnlock(P) \/ CancelWakeUnlock(P) \/ CloseWakeUnlock(P))
  \/ IsY("keep_stream_running", "sm.keep.read") /\ (KeepRead(P) \/ CloseOpenRead(P))
  \* close
  \/ IsOp("available_elements_count", "tail", "ld") /\ pc[P] = "FL1" /\ WV(Ev.r) = rt[Ring] /\ CloseLenTail(P)
  \/ IsOp("available_elements_count", "head", "ld") /\ pc[P] = "FL2" /\ WV(Ev.r) = rh[Ring] /\ CloseLenHead(P)
  \/ IsOp("running_streams_count", "used_streams_count", "ld") /\ pc[P] \in {"Q1", "Q2", "O2"} /\ Ev.r = count /\ (CloseRunLoad(P) \/ CloseRunRet(P) \/ CloseRunning(P))
  \/ IsY("register_stream_waker", "sm.waker.peek") /\ WakerPeek(P)
  \/ Ev.fn = "register_stream_waker" /\ IsLockCas /\ WakerLock(P)
  \/ Ev.fn = "register_stream_waker" /\ IsUnlockSt /\ WakerUnlock(P)
  \/ IsY("cancel_all_streams", "sm.used.read") /\ CancelNext(P)
  \/ IsY("cancel_stream", "sm.keep.clear") /\ CancelClear(P)
  \* create_stream_id
  \/ IsOp("create_stream_id", "created_streams_count", "fa") /\ Ev.r = created /\ CreateCountA(P)
  \/ IsOp("create_stream_id", "used_streams_count", "fa") /\ Ev.r = count /\ CreateCountB(P)
  \/ IsOp("consume_leaking_internal", "concurrency_guard", "cas") /\ Ev.ok /\ CreateVLock(P)
  \/ IsY("available_elements_count", "fsm.len.tail") /\ CreateVLenT(P)
  \/ IsY("available_elements_count", "fsm.len.head") /\ CreateVPop(P)
  \/ IsOp("consume_movable", "concurrency_guard", "st") /\ CreateVUnlock(P)
  \/ IsY("create_stream_id", "sm.keep.set") /\ CreateKeep(P)
  \* report_stream_dropped
  \/ Ev.fn = "report_stream_dropped" /\ Ev.fld = "wakers_lock" /\ IsLockCas /\ DropWLock(P)
  \/ Ev.fn = "report_stream_dropped" /\ Ev.fld = "wakers_lock" /\ IsUnlockSt /\ DropWUnlock(P)
  \/ IsOp("report_stream_dropped", "finished_streams_count", "fa") /\ Ev.r = finished /\ DropCountA(P)
  \/ IsOp("report_stream_dropped", "used_streams_count", "fs") /\ Ev.r = count /\ DropCountB(P)
  \/ IsOp("leak_slot_internal", "concurrency_guard", "cas") /\ Ev.ok /\ DropVPush(P)
  \/ IsOp("publish_leaked_internal", "concurrency_guard", "st") /\ DropVUnlock(P)
  \* sync_vacant_and_used_streams
  \/ IsOp("sync_vacant_and_used_streams", "streams_lock", "cas") /\ Ev.ok /\ SyncLock(P)
  \/ IsY("sync_vacant_and_used_streams", "sm.used.write") /\ SyncWrite(P)
  \/ IsOp("sync_vacant_and_used_streams", "streams_lock", "st") /\ SyncUnlock(P)

TOp == Ev.k = "op" /\ (IF InOther(P) THEN Stutter ELSE ((RingOp \/ SmOp \/ OgreOp) /\ Same) \/ (SpinOp /\ Stutter))

TNote == \/ Ev.k = "unpark" /\ drv[P].on /\ notified[P]
            /\ notified' = [notified EXCEPT ![P] = FALSE] /\ UNCHANGED <<ring, sm, waker, wlock, keep, pc, reg, gh, og, drv, hid>>
         \/ Ev.k = "park" /\ drv[P].on /\ reg[P].res = "pending" /\ Stutter
         \/ Ev.k = "slept" /\ pc[P] \in {"SL1", "SL2"} /\ CloseSlept(P) /\ Same
         \/ Ev.k = "slept" /\ pc[P] \notin {"SL1", "SL2"} /\ Stutter
         \/ Ev.k \in {"wake", "suspended", "panic", "final"} /\ Stutter

\* structural verdicts along the real behaviour (the delivery verdicts are Trace_AbsMulti's, on the same recorded executions)
BadOf == IF ~InvRingBounds THEN "InvRingBounds"
         ELSE IF ~InvLocks THEN "InvLocks"
         ELSE IF ~InvRunningCount THEN "InvRunningCount"
         ELSE IF ~InvListInSync THEN "InvListInSync"
         ELSE IF ~InvNoUseAfterFree THEN "InvNoUseAfterFree"
         ELSE IF ~InvPoolBounds THEN "InvPoolBounds"
         ELSE ""

TraceNext == /\ l <= Len(Rec)
             /\ l' = l + 1
             /\ IF Skipping
                THEN UNCHANGED <<mvars, drv, hid, bad>>
                ELSE /\ (((IsNopCall \/ IsNopRet) /\ Stutter) \/ TReset \/ TCall \/ TRet \/ TOp \/ TNote)
                     /\ bad' = Worst(EvBad, BadOf')
                     /\ NoteBad(bad')

TraceSpec == TraceInit /\ [][TraceNext]_tvars
=============================================================================
