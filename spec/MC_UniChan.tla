----------------------------- MODULE MC_UniChan -----------------------------
(***************************************************************************)
(* Exhaustive model-checking wrapper of UniChan: threads execute fixed      *)
(* scripts of channel operations; a `drive` operation is the executor task   *)
(* of one stream (poll; on Pending park until notified; stop at end of       *)
(* stream or after `max` items).                                             *)
(* Scheduling-step structure (so that TLC's paths map 1:1 onto schedules of  *)
(* the real code under the deterministic scheduler):                         *)
(*   MCCall(p)    start of the next scripted operation (send, drive, cancel) *)
(*   MCPoll(p)    a drive's next poll begins                                 *)
(*   MCUnpark(p)  a parked task is resumed after its waker was invoked       *)
(*   MCOp(p)      one scheduling point of the channel / ring code            *)
(*   MCSlept(p)   a sleep of one of close's polling loops is over: the thread *)
(*                goes on once another thread has taken a step since, or     *)
(*                when nobody else can run (the timer fires)                 *)
(*   MCRet(p)     return of a channel operation (same step as its last point)*)
(***************************************************************************)
EXTENDS UniChan

CONSTANT Script
VARIABLES opi,     \* per thread: index of the next scripted operation
          tpc,     \* per thread: "" (not driving) | "ready" | "polling" | "parked"
          tgot,    \* per thread: items the current drive has received
          slept    \* per thread: asleep in a polling loop, and nobody else has taken a step since

mcvars == <<uvars, opi, tpc, tgot, slept>>

S(v) == [op |-> "send", v |-> v, s |-> 0, max |-> 0]
Dv(s, m) == [op |-> "drive", v |-> 0, s |-> s, max |-> m]
X == [op |-> "cancel", v |-> 0, s |-> 0, max |-> 0]
Rs == [op |-> "reserve", v |-> 0, s |-> 0, max |-> 0]
Fi(i, v) == [op |-> "fill", v |-> v, s |-> i, max |-> 0]          \* s: position (from 1) in the thread's list of reservations
Sr(i) == [op |-> "send_reserved", v |-> 0, s |-> i, max |-> 0]
Cr(i) == [op |-> "cancel_reserved", v |-> 0, s |-> i, max |-> 0]
Cl == [op |-> "close", v |-> 0, s |-> 0, max |-> 0]
Dr(s) == [op |-> "drop", v |-> 0, s |-> s, max |-> 0]

Script_1p1c == << <<S(11), S(12)>>, <<Dv(0, 2)>> >>
Script_2p1c == << <<S(11)>>, <<S(21)>>, <<Dv(0, 2)>> >>
Script_1p1c3 == << <<S(11), S(12), S(13)>>, <<Dv(0, 3)>> >>
Script_cancel == << <<S(11)>>, <<X>>, <<Dv(0, 9)>> >>
Script_2s == << <<S(11), S(12)>>, <<Dv(0, 9)>>, <<Dv(1, 9)>>, <<X>> >>
Script_resv == << <<Rs, Fi(1, 11), Rs, Fi(2, 12), Cr(2), Sr(1), Rs, Fi(1, 13), Sr(1)>>, <<Dv(0, 2)>> >>
Script_close == << <<S(11)>>, <<Cl>>, <<Dv(0, 9), Dr(0)>> >>
Script_close_s2 == << <<S(11)>>, <<Cl>>, <<Dv(0, 9), Dr(0)>>, <<Dv(1, 9), Dr(1)>> >>

MCInit == UInit /\ opi = [p \in Procs |-> 1] /\ tpc = [p \in Procs |-> ""] /\ tgot = [p \in Procs |-> 0] /\ slept = [p \in Procs |-> FALSE]

CurOp(p) == Script[p + 1][opi[p]]
HasOp(p) == opi[p] <= Len(Script[p + 1])

\* start of a scripted operation
MCCall0(p) ==
    /\ HasOp(p) /\ cpc[p] = "idle" /\ tpc[p] = ""
    /\ LET o == CurOp(p) IN
       IF o.op = "send" THEN /\ CallSend(p, o.v) /\ opi' = [opi EXCEPT ![p] = @ + 1] /\ UNCHANGED <<tpc, tgot>>
       ELSE IF o.op = "cancel" THEN /\ CallCancel(p) /\ opi' = [opi EXCEPT ![p] = @ + 1] /\ UNCHANGED <<tpc, tgot>>
       ELSE IF o.op = "reserve" THEN /\ CallReserve(p) /\ opi' = [opi EXCEPT ![p] = @ + 1] /\ UNCHANGED <<tpc, tgot>>
       ELSE IF o.op = "fill" THEN /\ CallFill(p, o.s, o.v) /\ opi' = [opi EXCEPT ![p] = @ + 1] /\ UNCHANGED <<tpc, tgot>>
       ELSE IF o.op = "send_reserved" THEN /\ CallSendReserved(p, o.s) /\ opi' = [opi EXCEPT ![p] = @ + 1] /\ UNCHANGED <<tpc, tgot>>
       ELSE IF o.op = "cancel_reserved" THEN /\ CallCancelReserved(p, o.s) /\ opi' = [opi EXCEPT ![p] = @ + 1] /\ UNCHANGED <<tpc, tgot>>
       ELSE IF o.op = "close" THEN /\ CallClose(p) /\ opi' = [opi EXCEPT ![p] = @ + 1] /\ UNCHANGED <<tpc, tgot>>
       ELSE IF o.op = "drop" THEN /\ CallDrop(p, o.s) /\ opi' = [opi EXCEPT ![p] = @ + 1] /\ UNCHANGED <<tpc, tgot>>
       ELSE \* drive: the task clears its notification and is about to poll
            /\ notified' = [notified EXCEPT ![o.s] = FALSE]
            /\ tpc' = [tpc EXCEPT ![p] = "ready"] /\ tgot' = [tgot EXCEPT ![p] = 0]
            /\ UNCHANGED <<vars, cpc, cs, cres, waker, wlock, keep, stats, smv, opi>>

MCPoll0(p) == /\ tpc[p] = "ready" /\ cpc[p] = "idle"
             /\ CallPoll(p, CurOp(p).s)
             /\ tpc' = [tpc EXCEPT ![p] = "polling"]
             /\ UNCHANGED <<opi, tgot>>

MCUnpark0(p) == /\ tpc[p] = "parked" /\ notified[CurOp(p).s]
               /\ notified' = [notified EXCEPT ![CurOp(p).s] = FALSE]
               /\ tpc' = [tpc EXCEPT ![p] = "ready"]
               /\ UNCHANGED <<vars, cpc, cs, cres, waker, wlock, keep, stats, smv, opi, tgot>>

MCOp0(p) == ChanStep(p) /\ UNCHANGED <<opi, tpc, tgot>>

\* return; for a drive: decide how the task goes on (the notification is cleared right before the next poll is started)
MCRet0(p) ==
    /\ cpc[p] = "cret"
    /\ IF tpc[p] # "polling"
       THEN ChanRet(p) /\ UNCHANGED <<opi, tpc, tgot>>
       ELSE LET o == CurOp(p) IN
            /\ cpc' = [cpc EXCEPT ![p] = "idle"]
            /\ (IF pc[p] = "ret" THEN Ret(p) ELSE UNCHANGED vars)
            /\ stats' = [stats EXCEPT !.del = IF cres[p] = "item" THEN @ + 1 ELSE @]
            /\ UNCHANGED <<cs, cres, waker, wlock, keep, smv>>
            /\ IF cres[p] = "item"
               THEN IF tgot[p] + 1 < o.max
                    THEN /\ tgot' = [tgot EXCEPT ![p] = @ + 1] /\ tpc' = [tpc EXCEPT ![p] = "ready"]
                         /\ notified' = [notified EXCEPT ![o.s] = FALSE] /\ UNCHANGED opi
                    ELSE /\ tgot' = [tgot EXCEPT ![p] = @ + 1] /\ tpc' = [tpc EXCEPT ![p] = ""]
                         /\ opi' = [opi EXCEPT ![p] = @ + 1] /\ UNCHANGED notified
               ELSE IF cres[p] = "pending"
               THEN tpc' = [tpc EXCEPT ![p] = "parked"] /\ UNCHANGED <<opi, tgot, notified>>
               ELSE \* end of stream
                    tpc' = [tpc EXCEPT ![p] = ""] /\ opi' = [opi EXCEPT ![p] = @ + 1] /\ UNCHANGED <<tgot, notified>>

\* asleep in a polling loop: whoever takes a scheduler step ends everybody else's "nobody has moved since I fell asleep"
Sleeping(p) == cpc[p] \in {"Z1", "Z2"}
SleptAfter(p) == slept' = [q \in Procs |-> IF q = p THEN cpc'[p] \in {"Z1", "Z2"} ELSE FALSE]
MCCall(p)   == MCCall0(p) /\ SleptAfter(p)
MCPoll(p)   == MCPoll0(p) /\ SleptAfter(p)
MCUnpark(p) == MCUnpark0(p) /\ SleptAfter(p)
MCOp(p)     == MCOp0(p) /\ SleptAfter(p)
MCRet(p)    == MCRet0(p) /\ UNCHANGED slept       \* not a scheduler step: it happens within the thread's last step
MCSchedStep(p) == MCCall(p) \/ MCPoll(p) \/ MCUnpark(p) \/ MCOp(p)
OthersCanRun(p) == \E q \in Procs \ {p} : ENABLED MCSchedStep(q)
\* the sleep is over once another thread has taken a step since, or when nobody else can run (the timer fires)
MCSlept(p) == /\ Sleeping(p) /\ (~slept[p] \/ ~OthersCanRun(p))
              /\ CloseSlept(p) /\ UNCHANGED <<opi, tpc, tgot>> /\ SleptAfter(p)

MCNext == \E p \in Procs : MCCall(p) \/ MCPoll(p) \/ MCUnpark(p) \/ MCOp(p) \/ MCSlept(p) \/ MCRet(p)

-----------------------------------------------------------------------------
Producing(p) == HasOp(p) /\ CurOp(p).op \in {"send", "cancel", "close", "drop", "reserve", "fill", "send_reserved", "cancel_reserved"}
Driving(p) == HasOp(p) /\ CurOp(p).op = "drive"
ProducersDone == \A p \in Procs : ~Producing(p) /\ (~Driving(p) => cpc[p] = "idle")
Asleep(p) == Driving(p) /\ tpc[p] = "parked" /\ ~notified[CurOp(p).s]
Quiescent == ProducersDone /\ \A p \in Procs : Driving(p) => Asleep(p)
Cancelled == \E p \in Procs : \E i \in 1..Len(Script[p + 1]) : Script[p + 1][i].op \in {"cancel", "close"} /\ i < opi[p]

\* C01: at quiescence everything accepted was delivered or is still queued; never more delivered than accepted
InvNoLoss == Quiescent => stats.del + Queued = stats.acc
\* C04 (safety form of the liveness statement): no task sleeps while an accepted event is queued (and nobody was cancelled)
InvNoLostWakeup == (Quiescent /\ ~Cancelled) => (Queued = 0 \/ \A p \in Procs : ~Asleep(p))
\* C07: after cancel_all_streams completed no task is left asleep
InvCancelEnds == (Quiescent /\ Cancelled) => \A p \in Procs : ~Asleep(p)
\* C06: when close has returned every event accepted before it was called has been yielded, no stream is left, the channel is not open
InvCloseWaits == \A p \in Procs : cres[p] = "closed" => (stats.del >= cx[p].accAt /\ cx[p].left = 0 /\ cx[p].run = 0)
InvClosedAfterwards == \A p \in Procs : cres[p] = "closed" => ~cx[p].open
\* ... and nothing accepted before the call is left in the ring (the streams are gone: nobody would ever yield it)
InvCloseLeavesNothing == \A p \in Procs : cres[p] = "closed" => stats.acc - stats.del <= stats.acc - cx[p].accAt
=============================================================================
