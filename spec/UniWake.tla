------------------------------ MODULE UniWake ------------------------------
(***************************************************************************)
(* Protocol model of a Uni channel's producer / consumer hand-shake          *)
(* (/repo/src/uni/channels/{movable,zero_copy}/{atomic,full_sync}.rs,        *)
(*  /repo/src/mutiny_stream.rs, /repo/src/streams_manager.rs):               *)
(*   producer (Kind = "atomic"):   reserve a slot, sampling the length;      *)
(*        write; publish in reservation order; wake stream len_after-1 if    *)
(*        len_after <= MAX_STREAMS (len_after-2 if len_after = MAX_STREAMS+1)*)
(*   producer (Kind = "fullsync"): enqueue under the lock (length sampled    *)
(*        then), unlock, same wake rule without the +1 workaround            *)
(*   stream task: poll = consume; if nothing: keep-running check, register   *)
(*        the waker (self-wake when it was not registered yet), Pending;     *)
(*        parked until its waker is invoked (sticky notification)            *)
(*   cancel_all: clear keep-running, wake                                    *)
(* C04 (safety form): when every producer has returned and no task can run,  *)
(*   no stream is parked (not cancelled) while an accepted event is queued.  *)
(* C01: delivered + queued = accepted.   C07: after cancel every task ends.  *)
(***************************************************************************)
EXTENDS Integers, Sequences, FiniteSets, TLC

CONSTANTS Kind,      \* "atomic" | "fullsync"
          N,         \* BUFFER_SIZE
          MaxS,      \* MAX_STREAMS (= number of streams created)
          Prods,     \* producer ids
          Sends,     \* events each producer sends
          WithCancel \* TRUE: a canceller thread calls cancel_all_streams at any time

Streams == 0..MaxS-1

VARIABLES head,      \* events consumed so far
          resv,      \* slots reserved so far   (enqueuer_tail)
          pub,       \* slots published so far  (tail)
          ppc, preg, \* per producer: pc / [left, ticket, lenb]
          tpc, notified, waker, keep,
          accepted, rejected, delivered, cpc

vars == <<head, resv, pub, ppc, preg, tpc, notified, waker, keep, accepted, rejected, delivered, cpc>>

Init == /\ head = 0 /\ resv = 0 /\ pub = 0
        /\ ppc = [p \in Prods |-> "idle"] /\ preg = [p \in Prods |-> [left |-> Sends, ticket |-> 0, lenb |-> 0]]
        /\ tpc = [s \in Streams |-> "parked"] /\ notified = [s \in Streams |-> TRUE]      \* a spawned task is polled once
        /\ waker = [s \in Streams |-> FALSE] /\ keep = [s \in Streams |-> TRUE]
        /\ accepted = 0 /\ rejected = 0 /\ delivered = 0 /\ cpc = IF WithCancel THEN 0 ELSE -1

Wake(s, nf) == IF s \in Streams /\ waker[s] THEN [nf EXCEPT ![s] = TRUE] ELSE nf

\* ---- producers
Reserve(p) ==     \* atomic: enqueuer_tail.fetch_add + head.load (one step here); fullsync: the whole enqueue under the lock
    /\ ppc[p] = "idle" /\ preg[p].left > 0
    /\ IF Kind = "atomic"
       THEN LET lb == resv - head IN
            IF lb < N
            THEN /\ resv' = resv + 1 /\ preg' = [preg EXCEPT ![p].ticket = resv, ![p].lenb = lb, ![p].left = @ - 1]
                 /\ ppc' = [ppc EXCEPT ![p] = "publish"] /\ UNCHANGED <<pub, rejected>>
            ELSE /\ rejected' = rejected + 1 /\ preg' = [preg EXCEPT ![p].left = @ - 1] /\ UNCHANGED <<resv, pub, ppc>>
       ELSE LET lb == pub - head IN
            IF lb < N
            THEN /\ resv' = resv + 1 /\ pub' = pub + 1 /\ preg' = [preg EXCEPT ![p].lenb = lb, ![p].left = @ - 1]
                 /\ ppc' = [ppc EXCEPT ![p] = "wake"] /\ UNCHANGED rejected
            ELSE /\ rejected' = rejected + 1 /\ preg' = [preg EXCEPT ![p].left = @ - 1] /\ UNCHANGED <<resv, pub, ppc>>
    /\ UNCHANGED <<head, tpc, notified, waker, keep, accepted, delivered, cpc>>

Publish(p) ==     \* tail CAS(ticket -> ticket+1): only in reservation order
    /\ ppc[p] = "publish" /\ pub = preg[p].ticket
    /\ pub' = pub + 1 /\ ppc' = [ppc EXCEPT ![p] = "wake"]
    /\ UNCHANGED <<head, resv, preg, tpc, notified, waker, keep, accepted, rejected, delivered, cpc>>

WakeDecision(p) ==
    /\ ppc[p] = "wake"
    /\ LET la == preg[p].lenb + 1 IN
       notified' = IF la <= MaxS THEN Wake(la - 1, notified)
                   ELSE IF Kind = "atomic" /\ la = MaxS + 1 THEN Wake(la - 2, notified)
                   ELSE notified
    /\ accepted' = accepted + 1 /\ ppc' = [ppc EXCEPT ![p] = "idle"]
    /\ UNCHANGED <<head, resv, pub, preg, tpc, waker, keep, rejected, delivered, cpc>>

\* ---- stream tasks
PollStart(s) == /\ tpc[s] = "parked" /\ notified[s]
                /\ notified' = [notified EXCEPT ![s] = FALSE] /\ tpc' = [tpc EXCEPT ![s] = "consume"]
                /\ UNCHANGED <<head, resv, pub, ppc, preg, waker, keep, accepted, rejected, delivered, cpc>>
Consume(s) == /\ tpc[s] = "consume"
              /\ IF pub > head
                 THEN head' = head + 1 /\ delivered' = delivered + 1 /\ UNCHANGED tpc       \* Ready(Some): the executor polls again
                 ELSE tpc' = [tpc EXCEPT ![s] = "keepcheck"] /\ UNCHANGED <<head, delivered>>
              /\ UNCHANGED <<resv, pub, ppc, preg, notified, waker, keep, accepted, rejected, cpc>>
KeepCheck(s) == /\ tpc[s] = "keepcheck"
                /\ tpc' = [tpc EXCEPT ![s] = IF keep[s] THEN "register" ELSE "lastlook"]
                /\ UNCHANGED <<head, resv, pub, ppc, preg, notified, waker, keep, accepted, rejected, delivered, cpc>>
\* told to end: the stream consumes once more (an event may have been sent since its empty consume) and ends only if nothing is there
LastLook(s) == /\ tpc[s] = "lastlook"
               /\ IF pub > head
                  THEN head' = head + 1 /\ delivered' = delivered + 1 /\ tpc' = [tpc EXCEPT ![s] = "consume"]
                  ELSE tpc' = [tpc EXCEPT ![s] = "ended"] /\ UNCHANGED <<head, delivered>>
               /\ UNCHANGED <<resv, pub, ppc, preg, notified, waker, keep, accepted, rejected, cpc>>
Register(s) == /\ tpc[s] = "register"
               /\ IF waker[s] THEN UNCHANGED <<waker, notified>>
                  ELSE waker' = [waker EXCEPT ![s] = TRUE] /\ notified' = [notified EXCEPT ![s] = TRUE]     \* first registration: self-wake
               /\ tpc' = [tpc EXCEPT ![s] = "parked"]
               /\ UNCHANGED <<head, resv, pub, ppc, preg, keep, accepted, rejected, delivered, cpc>>

\* ---- cancel_all_streams: stream by stream
CancelStep == /\ cpc \in Streams
              /\ keep' = [keep EXCEPT ![cpc] = FALSE] /\ notified' = Wake(cpc, notified) /\ cpc' = IF cpc + 1 \in Streams THEN cpc + 1 ELSE MaxS
              /\ UNCHANGED <<head, resv, pub, ppc, preg, tpc, waker, accepted, rejected, delivered>>

ProdsDone == \A p \in Prods : ppc[p] = "idle" /\ preg[p].left = 0
NothingRuns == \A s \in Streams : tpc[s] = "ended" \/ (tpc[s] = "parked" /\ ~notified[s])
Quiescent == ProdsDone /\ NothingRuns /\ cpc \notin Streams
Stutter == Quiescent /\ UNCHANGED vars

Next == (\E p \in Prods : Reserve(p) \/ Publish(p) \/ WakeDecision(p))
        \/ (\E s \in Streams : PollStart(s) \/ Consume(s) \/ KeepCheck(s) \/ LastLook(s) \/ Register(s))
        \/ CancelStep \/ Stutter

Cancelled == cpc = MaxS
InvCounts == delivered = head /\ accepted <= pub /\ pub <= resv /\ pub - head <= N /\ resv - head <= N
InvNoLoss == Quiescent => delivered + (pub - head) = accepted          \* C01
InvNoLostWakeup == (Quiescent /\ ~Cancelled) => (pub = head)           \* C04
InvCancelEnds == (Quiescent /\ Cancelled) => \A s \in Streams : tpc[s] = "ended"     \* C07
=============================================================================
