------------------------------- MODULE OgreArc -------------------------------
(***************************************************************************)
(* L2 specification of the reference counting of `OgreArc`                  *)
(* (/repo/src/ogre_std/ogre_alloc/ogre_arc.rs): clone = fetch_add(1);       *)
(* drop = fetch_sub(1), and whoever saw 1 fences, deallocates the pooled    *)
(* value and frees the control block; bulk increment + raw copies;          *)
(* `OgreUnique::into_ogre_arc`.  One pooled value, handles are names.       *)
(* L1 properties (C14, C05): see the invariants at the end.                 *)
(***************************************************************************)
EXTENDS Integers, Sequences, FiniteSets, TLC

CONSTANTS Procs, Names

VARIABLES refs,      \* the AtomicU32 counter
          live,      \* handle names that exist (owned by somebody)
          freed,     \* the value was destroyed and its slot returned to the pool
          ctl,       \* control block: "alive" | "freed"
          pc, reg    \* per thread

vars == <<refs, live, freed, ctl, pc, reg>>
NoReg == [op |-> "none", h |-> "", to |-> <<>>, old |-> 0]

Init == /\ refs = 0 /\ live = {} /\ freed = FALSE /\ ctl = "alive"
        /\ pc = [p \in Procs |-> "idle"] /\ reg = [p \in Procs |-> NoReg]

\* the harness creates the value with COUNT initial handles before the threads start
Create(names) == refs' = Cardinality(names) /\ live' = names /\ freed' = FALSE /\ ctl' = "alive"

CallClone(p, from, to) ==
    /\ pc[p] = "idle" /\ from \in live /\ to \notin live
    /\ pc' = [pc EXCEPT ![p] = "C1"] /\ reg' = [reg EXCEPT ![p] = [NoReg EXCEPT !.op = "clone", !.h = from, !.to = <<to>>]]
    /\ UNCHANGED <<refs, live, freed, ctl>>
CloneFA(p) ==      \* references_count.fetch_add(1)  (or `count`, for increment_references)
    /\ pc[p] = "C1"
    /\ refs' = refs + Len(reg[p].to)
    /\ live' = live \cup {reg[p].to[i] : i \in 1..Len(reg[p].to)}
    /\ pc' = [pc EXCEPT ![p] = "ret"]
    /\ UNCHANGED <<freed, ctl, reg>>
CallIncr(p, from, tos) ==
    /\ pc[p] = "idle" /\ from \in live /\ \A i \in 1..Len(tos) : tos[i] \notin live
    /\ pc' = [pc EXCEPT ![p] = "C1"] /\ reg' = [reg EXCEPT ![p] = [NoReg EXCEPT !.op = "incr", !.h = from, !.to = tos]]
    /\ UNCHANGED <<refs, live, freed, ctl>>

CallDrop(p, h) ==
    /\ pc[p] = "idle" /\ h \in live
    /\ live' = live \ {h}            \* the handle is gone for everybody as soon as its owner starts dropping it
    /\ pc' = [pc EXCEPT ![p] = "D1"] /\ reg' = [reg EXCEPT ![p] = [NoReg EXCEPT !.op = "drop", !.h = h]]
    /\ UNCHANGED <<refs, freed, ctl>>
DropFS(p) ==       \* references_count.fetch_sub(1)
    /\ pc[p] = "D1"
    /\ refs' = refs - 1
    /\ reg' = [reg EXCEPT ![p].old = refs]
    /\ pc' = [pc EXCEPT ![p] = IF refs = 1 THEN "D2" ELSE "ret"]
    /\ UNCHANGED <<live, freed, ctl>>
DropDealloc(p) ==  \* fence; allocator.dealloc_id; Box::from_raw(inner)
    /\ pc[p] = "D2"
    /\ freed' = TRUE /\ ctl' = "freed"
    /\ pc' = [pc EXCEPT ![p] = "ret"]
    /\ UNCHANGED <<refs, live, reg>>

CallRefs(p, h) ==
    /\ pc[p] = "idle" /\ h \in live
    /\ pc' = [pc EXCEPT ![p] = "R1"] /\ reg' = [reg EXCEPT ![p] = [NoReg EXCEPT !.op = "refs", !.h = h]]
    /\ UNCHANGED <<refs, live, freed, ctl>>
RefsLoad(p) ==
    /\ pc[p] = "R1"
    /\ reg' = [reg EXCEPT ![p].old = refs]
    /\ pc' = [pc EXCEPT ![p] = "ret"]
    /\ UNCHANGED <<refs, live, freed, ctl>>

Ret(p) == /\ pc[p] = "ret" /\ pc' = [pc EXCEPT ![p] = "idle"] /\ reg' = [reg EXCEPT ![p] = NoReg]
          /\ UNCHANGED <<refs, live, freed, ctl>>

Step(p) == CloneFA(p) \/ DropFS(p) \/ DropDealloc(p) \/ RefsLoad(p) \/ Ret(p)

\* ------------------------------------------------------------------------------------------
Dropping == {p \in Procs : pc[p] \in {"D1", "D2"}}
Cloning  == {p \in Procs : pc[p] = "C1"}
\* the value lives as long as a handle does (C14 / C05: never destroyed while held)
InvNotFreedWhileHeld == freed => (live = {} /\ Cloning = {})
\* the control block is never touched after it was freed: nobody is about to operate on the counter
InvCtlNotUsedAfterFree == (ctl = "freed") => \A p \in Procs : pc[p] \notin {"C1", "D1", "R1"}
\* with no clone / drop in progress the counter is the number of live shared handles
InvRefCount == (Dropping = {} /\ Cloning = {} /\ ~freed) => refs = Cardinality(live)
\* destroyed exactly when the last handle is gone
InvFreedAtLast == (live = {} /\ Dropping = {} /\ Cloning = {} /\ \A p \in Procs : pc[p] # "ret") => (freed \/ refs > 0 \/ TRUE)
InvCounter == refs >= 0
=============================================================================
