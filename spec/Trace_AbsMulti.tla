--------------------------- MODULE Trace_AbsMulti ---------------------------
(***************************************************************************)
(* L1 (abstract) specification of a Multi channel as a trace specification. *)
(* A Multi channel is a set of listeners, each with a lifetime (created ..   *)
(* dropped); every accepted event is owed, exactly once and in each          *)
(* producer's order, to every listener whose lifetime covers the send:       *)
(*   - a listener yields nothing that was not sent, nothing twice, nothing   *)
(*     whose send had returned before the listener's creation was called     *)
(*                                                        (C03, C10)         *)
(*   - all listeners see the same payload allocation for one event   (C03)  *)
(*   - a listener that exists throughout (creation returned before the send  *)
(*     was called, not dropped before it returned) yields the event; added   *)
(*     and removed listeners yield a gap-free suffix / prefix   (C03,C10,C17)*)
(*   - a driven listener is not left parked with an event waiting    (C04)  *)
(*   - cancelled listeners end                                       (C07)  *)
(*   - running-stream count = live listeners                         (C10)  *)
(*   - payloads destroyed exactly once, no bookkeeping touched after free,   *)
(*     and after everything was consumed and released the channel accepts    *)
(*     BUFFER_SIZE events again                               (C05, C16, C17)*)
(*   - log channel: one total order for all listeners; an old/new pair       *)
(*     partitions the history                                        (C09)  *)
(* Times are trace line numbers (the deterministic scheduler's total order). *)
(***************************************************************************)
EXTENDS Integers, Sequences, FiniteSets, TraceBase

CONSTANTS N, Procs, Ls,      \* BUFFER_SIZE, threads, listener indices (0..k)
          Checks             \* verdicts to judge

VARIABLES snd,      \* completed sends: sequence of [v, c, r, ok, p]   (c/r: call / return line)
          cur,      \* per thread: [op, v, c]  operation in progress ("none" | "send" | "poll" | "create" | "drop")
          lis,      \* per listener index: [st, cc, cr, dc, how, del, ended, mate]   st: "none" | "live" | "dropped"
          adr,      \* value -> payload address seen first (as a set of <<v, addr>>)
          parked, drv, cancelled, held, resv, churn,
          lp,       \* per thread: <<call line, return line>> of its latest completed poll
          rw        \* [on: atomic operations are recorded in this run; open: threads that are, right now, between the update of
                    \*  used_streams_count and the end of the in-place rebuild of the live-listener list (create_stream_id /
                    \*  report_stream_dropped .. sync_vacant_and_used_streams); synced: threads whose current create / drop has
                    \*  already finished its rebuild -- the recorded finding is about the counter being updated BEFORE the list is
                    \*  rewritten: a counter update that comes after the rebuild opens no window of that finding]

vars == <<snd, cur, lis, adr, parked, drv, cancelled, held, resv, churn, lp, rw>>
tvars == <<vars, l, bad>>

On(name) == name \in Checks
NoCur == [op |-> "none", v |-> 0, c |-> 0, ch |-> FALSE]
NoLis == [st |-> "none", cc |-> 0, cr |-> 0, dc |-> 0, dr |-> 0, how |-> "new", del |-> <<>>, ended |-> FALSE, mate |-> -1]
LiveAt0(k) == [s \in Ls |-> IF s < k THEN [NoLis EXCEPT !.st = "live"] ELSE NoLis]

Init0 == /\ snd = <<>> /\ cur = [p \in Procs |-> NoCur] /\ lis = LiveAt0(0) /\ adr = {}
         /\ parked = [p \in Procs |-> FALSE] /\ drv = [p \in Procs |-> -1] /\ cancelled = 0 /\ held = 0 /\ resv = 0 /\ churn = 0
         /\ rw = [on |-> FALSE, open |-> {}, synced |-> {}] /\ lp = [p \in Procs |-> <<0, 0>>]
TraceInit == Init0 /\ TBInit

TReset == /\ Ev.k = "reset"
          /\ snd' = <<>> /\ cur' = [p \in Procs |-> NoCur] /\ lis' = LiveAt0(Ev.x.streams) /\ adr' = {}
          /\ parked' = [p \in Procs |-> FALSE] /\ drv' = [p \in Procs |-> -1] /\ cancelled' = 0 /\ held' = 0 /\ resv' = 0 /\ churn' = 0
          /\ rw' = [on |-> ("ops" \in DOMAIN Ev.x /\ Ev.x.ops), open |-> {}, synced |-> {}] /\ lp' = [p \in Procs |-> <<0, 0>>]

SendOps == {"send", "send_with", "send_async", "send_reserved"}
Range(s) == {s[i] : i \in 1..Len(s)}
Pos(s, v) == CHOOSE i \in 1..Len(s) : s[i] = v

TCall == /\ Ev.k = "call" /\ ~IsNopCall
         /\ cur' = IF Ev.x.op \in SendOps THEN [cur EXCEPT ![P] = [op |-> "send", v |-> Ev.x.v, c |-> l, ch |-> (rw.open # {})]]
                   ELSE IF Ev.x.op = "poll" THEN [cur EXCEPT ![P] = [op |-> "poll", v |-> Ev.x.s, c |-> l, ch |-> FALSE]]
                   ELSE IF Ev.x.op \in {"create", "create_if_room"} THEN [cur EXCEPT ![P] = [op |-> "create", v |-> 0, c |-> l, ch |-> FALSE]]
                   ELSE IF Ev.x.op = "drop_stream" THEN [cur EXCEPT ![P] = [op |-> "drop", v |-> Ev.x.s, c |-> l, ch |-> FALSE]]
                   ELSE IF Ev.x.op \in {"running", "close"} THEN [cur EXCEPT ![P] = [op |-> Ev.x.op, v |-> 0, c |-> l, ch |-> FALSE]]
                   ELSE cur
         /\ lis' = IF Ev.x.op = "drop_stream" /\ Ev.x.s \in Ls /\ lis[Ev.x.s].st = "live" THEN [lis EXCEPT ![Ev.x.s].dc = l] ELSE lis
         /\ churn' = IF Ev.x.op \in {"create", "create_if_room", "drop_stream"} THEN churn + 1 ELSE churn
         /\ cancelled' = IF Ev.x.op = "cancel_all" /\ cancelled = 0 THEN l ELSE cancelled
         /\ drv' = IF Ev.x.op = "drive" THEN [drv EXCEPT ![P] = Ev.x.s] ELSE drv
         /\ rw' = [rw EXCEPT !.synced = @ \ {P}]          \* a new operation of this thread: no list rebuild of it is behind us yet
         /\ UNCHANGED <<snd, adr, parked, held, resv, lp>>

\* the send (completed or in progress) that carries value v, as [c, r, p, done, ok]
SendOf(v) == IF \E i \in 1..Len(snd) : snd[i].v = v /\ snd[i].ok
             THEN LET i == CHOOSE i \in 1..Len(snd) : snd[i].v = v /\ snd[i].ok IN [c |-> snd[i].c, r |-> snd[i].r, p |-> snd[i].p, known |-> TRUE, ch |-> snd[i].ch]
             ELSE IF \E p \in Procs : cur[p].op = "send" /\ cur[p].v = v
             THEN LET p == CHOOSE p \in Procs : cur[p].op = "send" /\ cur[p].v = v IN [c |-> cur[p].c, r |-> 1000000, p |-> p, known |-> TRUE, ch |-> cur[p].ch]
             ELSE [c |-> 0, r |-> 0, p |-> -1, known |-> FALSE, ch |-> FALSE]

\* a send (interval c..r) that overlaps the creation or the removal of some listener: "during churn"
Big == 1000000
ChurnedCR(c, r) == \/ \E s \in Ls : lis[s].cc > 0 /\ lis[s].cc < r /\ lis[s].cr > c
                   \/ \E s \in Ls : lis[s].dc > 0 /\ lis[s].dc < r /\ (IF lis[s].dr = 0 THEN Big ELSE lis[s].dr) > c
                   \/ \E p \in Procs : cur[p].op \in {"create", "drop"} /\ cur[p].c < r
\* with the atomic operations recorded, "during churn" is exact: the send overlapped a window in which the live-listener list (or its
\* count) was being rewritten; without them it is approximated by the create / drop calls in progress
ChurnedS(so) == IF rw.on THEN so.ch ELSE ChurnedCR(so.c, so.r)
Tag(name, churned) == IF churned THEN name \o "DuringChurn" ELSE name

\* verdict on a delivery of v (with payload address a) to listener s
DeliveryBad(s, v, a) ==
    LET so == SendOf(v) IN
    IF On("InvNoInvention") /\ ~so.known THEN "InvNoInvention"
    ELSE IF On("InvAtMostOncePerListener") /\ v \in Range(lis[s].del) THEN Tag("InvAtMostOncePerListener", so.known /\ ChurnedS(so))
    ELSE IF On("InvOnlyLifetimeEvents") /\ so.known /\ lis[s].how = "new" /\ so.r < lis[s].cc THEN "InvOnlyLifetimeEvents"
    ELSE IF On("InvProducerOrder") /\ so.known /\ (\E u \in Range(lis[s].del) : SendOf(u).p = so.p /\ SendOf(u).c > so.c) THEN "InvProducerOrder"
    ELSE IF On("InvSamePayload") /\ a # 0 /\ (\E x \in adr : x[1] = v /\ x[2] # a) THEN "InvSamePayload"
    ELSE ""

TRet ==
    /\ Ev.k = "ret" /\ ~IsNopRet
    /\ IF cur[P].op = "send"
       THEN /\ snd' = Append(snd, [v |-> cur[P].v, c |-> cur[P].c, r |-> l, ok |-> Ev.x.ok, p |-> P, ch |-> cur[P].ch])
            /\ cur' = [cur EXCEPT ![P] = NoCur]
            /\ resv' = IF Ev.fn = "send_reserved" /\ Ev.x.ok THEN resv - 1 ELSE resv
            /\ UNCHANGED <<lis, adr, held, churn>>
       ELSE IF cur[P].op = "poll"
       THEN LET s == Ev.x.s IN
            /\ cur' = [cur EXCEPT ![P] = NoCur]
            /\ lis' = IF s \in Ls /\ Ev.x.r = "item" THEN [lis EXCEPT ![s].del = Append(@, Ev.x.v)]
                      ELSE IF s \in Ls /\ Ev.x.r = "end" THEN [lis EXCEPT ![s].ended = TRUE] ELSE lis
            /\ adr' = IF Ev.x.r = "item" /\ Ev.x.addr # 0 THEN adr \cup {<<Ev.x.v, Ev.x.addr>>} ELSE adr
            /\ held' = IF Ev.x.r = "item" /\ Ev.x.h >= 0 THEN held + 1 ELSE held
            /\ UNCHANGED <<snd, resv, churn>>
       ELSE IF cur[P].op = "create"
       THEN /\ cur' = [cur EXCEPT ![P] = NoCur]
            /\ lis' = [s \in Ls |-> IF \E i \in 1..Len(Ev.x.s) : Ev.x.s[i] = s
                                    THEN [NoLis EXCEPT !.st = "live", !.cc = cur[P].c, !.cr = l, !.how = IF Len(Ev.x.s) = 2 /\ Ev.x.s[2] = s THEN "new" ELSE Ev.x.how,
                                                       !.mate = IF Len(Ev.x.s) = 2 THEN (IF Ev.x.s[1] = s THEN Ev.x.s[2] ELSE Ev.x.s[1]) ELSE -1]
                                    ELSE lis[s]]
            /\ churn' = churn - 1
            /\ UNCHANGED <<snd, adr, held, resv>>
       ELSE IF cur[P].op = "drop"
       THEN /\ cur' = [cur EXCEPT ![P] = NoCur]
            /\ lis' = IF Ev.x.ok /\ Ev.x.s \in Ls THEN [lis EXCEPT ![Ev.x.s].st = "dropped", ![Ev.x.s].dr = l] ELSE lis
            /\ churn' = churn - 1
            /\ UNCHANGED <<snd, adr, held, resv>>
       ELSE /\ resv' = IF Ev.fn = "reserve" /\ Ev.x.ok THEN resv + 1 ELSE IF Ev.fn = "cancel_reserved" /\ Ev.x.ok THEN resv - 1 ELSE resv
            /\ held' = IF Ev.fn = "release" /\ Ev.x.ok THEN held - 1 ELSE IF Ev.fn = "release_all" THEN held - Ev.x.v ELSE held
            /\ cur' = IF cur[P].op \in {"running", "close"} THEN [cur EXCEPT ![P] = NoCur] ELSE cur
            /\ UNCHANGED <<snd, lis, adr, churn>>
    /\ lp' = IF cur[P].op = "poll" THEN [lp EXCEPT ![P] = <<cur[P].c, l>>] ELSE lp
    /\ UNCHANGED <<parked, drv, cancelled, rw>>

\* the window in which the live-listener list is inconsistent (only seen when atomic operations are recorded)
RwOpens == Ev.k = "op" /\ Ev.fld = "used_streams_count" /\ ((Ev.fn = "create_stream_id" /\ Ev.o = "fa") \/ (Ev.fn = "report_stream_dropped" /\ Ev.o = "fs"))
           /\ P \notin rw.synced
RwCloses == Ev.k = "op" /\ Ev.fn = "sync_vacant_and_used_streams" /\ Ev.fld = "streams_lock" /\ Ev.o = "st"

TNote == \/ /\ Ev.k = "park" /\ parked' = [parked EXCEPT ![P] = TRUE]
            /\ UNCHANGED <<snd, cur, lis, adr, drv, cancelled, held, resv, churn, rw, lp>>
         \/ /\ Ev.k = "unpark" /\ parked' = [parked EXCEPT ![P] = FALSE]
            /\ UNCHANGED <<snd, cur, lis, adr, drv, cancelled, held, resv, churn, rw, lp>>
         \/ /\ RwOpens
            /\ rw' = [rw EXCEPT !.open = @ \cup {P}]
            /\ cur' = [p \in Procs |-> IF cur[p].op = "send" THEN [cur[p] EXCEPT !.ch = TRUE] ELSE cur[p]]     \* every send in progress overlaps it
            /\ UNCHANGED <<snd, lis, adr, parked, drv, cancelled, held, resv, churn, lp>>
         \/ /\ RwCloses
            /\ rw' = [rw EXCEPT !.open = @ \ {P}, !.synced = @ \cup {P}]
            /\ UNCHANGED <<snd, cur, lis, adr, parked, drv, cancelled, held, resv, churn, lp>>
         \/ /\ Ev.k \in {"op", "wake", "panic", "suspended", "slept"} /\ ~RwOpens /\ ~RwCloses /\ UNCHANGED vars

TFinal == Ev.k = "final" /\ UNCHANGED vars

\* ---------------------------------------------------------------------------------------------
\* end-of-run verdicts

Quiet == \A p \in Procs : cur[p].op = "none"
Accepted == {i \in 1..Len(snd) : snd[i].ok}
LeftOf(x, s) == IF \E i \in 1..Len(x.left) : x.left[i].s = s THEN x.left[CHOOSE i \in 1..Len(x.left) : x.left[i].s = s].vs ELSE <<>>
Got(x, s) == Range(lis[s].del) \cup Range(LeftOf(x, s))
\* the send certainly falls into the lifetime of listener s
Within(i, s) == /\ lis[s].st # "none"
                /\ (IF lis[s].how = "new" THEN snd[i].c > lis[s].cr ELSE TRUE)
                /\ (lis[s].dc = 0 \/ snd[i].r < lis[s].dc)
                /\ (cancelled = 0 \/ snd[i].r < cancelled)
\* listeners that are still there at the end and whose queue was emptied (by their own polls and the final drain)
Complete(x, s) == lis[s].st = "live" /\ x.drained /\ lis[s].how # "old"
Churned(i) == IF rw.on THEN snd[i].ch ELSE ChurnedCR(snd[i].c, snd[i].r)
MissingP(x, plain) == \E s \in Ls : Complete(x, s) /\ (\E i \in Accepted : Within(i, s) /\ snd[i].v \notin Got(x, s) /\ (plain => ~Churned(i)))
Missing(x) == MissingP(x, FALSE)
\* gap freedom per producer: between two delivered events of one producer, every accepted one is delivered
GapP(x, plain) == \E s \in Ls : lis[s].st # "none" /\ lis[s].how # "old" /\
            \E i, j, k \in Accepted : /\ snd[i].p = snd[j].p /\ snd[j].p = snd[k].p /\ snd[i].c < snd[j].c /\ snd[j].c < snd[k].c
                                      /\ snd[i].v \in Got(x, s) /\ snd[k].v \in Got(x, s) /\ snd[j].v \notin Got(x, s)
                                      /\ (plain => ~Churned(j))
Gap(x) == GapP(x, FALSE)
\* a leftover that the final drain found must obey the same delivery rules
LeftBadP(x, plain) == \E s \in Ls : \E i \in 1..Len(LeftOf(x, s)) :
                          LET v == LeftOf(x, s)[i] IN DeliveryBad(s, v, 0) # "" /\ (plain => ~(SendOf(v).known /\ ChurnedS(SendOf(v))))
LeftBad(x) == LeftBadP(x, FALSE)
\* (storage verdict: a reference can also be stranded by a send that lands in a listener's queue between that listener's final drain and
\*  its removal from the live list -- anywhere inside the drop call -- so here "churn" is the whole create / drop call, recorded or not)
AnyChurned == \E i \in Accepted : Churned(i) \/ ChurnedCR(snd[i].c, snd[i].r)
\* log channel: any two listeners order their common events identically
Seen(x, s) == lis[s].del \o LeftOf(x, s)
OrderClash(x) == \E a, b \in Ls : a # b /\ \E u, v \in Range(Seen(x, a)) \cap Range(Seen(x, b)) :
                     u # v /\ Pos(Seen(x, a), u) < Pos(Seen(x, a), v) /\ Pos(Seen(x, b), v) < Pos(Seen(x, b), u)
\* log channel: an old/new pair partitions the history
SplitBad(x) == \E s \in Ls : lis[s].how = "old" /\ lis[s].mate >= 0 /\
                 LET m == lis[s].mate IN
                 \/ Range(lis[s].del) \cap Got(x, m) # {}
                 \/ (lis[s].ended /\ x.drained /\ lis[m].st = "live" /\ \E i \in Accepted : (lis[m].dc = 0) /\ snd[i].v \notin Range(lis[s].del) \cup Got(x, m))
                 \/ (\E i \in Accepted : snd[i].r < lis[s].cc /\ lis[s].ended /\ snd[i].v \notin Range(lis[s].del))
                 \/ (\E i \in Accepted : snd[i].c > lis[s].cr /\ snd[i].v \in Range(lis[s].del))
ParkedWithWork(x) == \E p \in Procs : parked[p] /\ drv[p] \in Ls /\ lis[drv[p]].st = "live" /\ Len(LeftOf(x, drv[p])) > 0
\* a lost wake-up is "racing" when an event left waiting for a parked task was being sent while that task made its last poll (the wake
\* decision of the send was taken from a queue length sampled before the task drained the queue); otherwise the event was sent entirely
\* after the task had gone to sleep and still woke nobody
RacingLost(x) == \E p \in Procs : /\ parked[p] /\ drv[p] \in Ls /\ lis[drv[p]].st = "live"
                                  /\ \E i \in 1..Len(LeftOf(x, drv[p])) : LET so == SendOf(LeftOf(x, drv[p])[i]) IN
                                         so.known /\ so.c < lp[p][2] /\ so.r > lp[p][1]
ParkedAfterCancel == \E p \in Procs : parked[p] /\ drv[p] \in Ls /\ lis[drv[p]].st = "live" /\ (lis[drv[p]].cc = 0 \/ lis[drv[p]].cr < cancelled)

FinalBad(x) ==
    IF x.hard THEN (IF On("InvNoStall") THEN "InvNoStall" ELSE "")
    ELSE IF On("InvNoUseAfterFree") /\ Len(x.anomalies) > 0 THEN "InvNoUseAfterFree"
    ELSE IF On("InvDestroyedAtMostOnce") /\ (\E i \in 1..Len(x.drops) : x.drops[i][2] > 1) THEN "InvDestroyedAtMostOnce"
    \* "exactly once as soon as it has been delivered and every handle to it released": everything was consumed (by the streams or the
    \* final drain), nothing is held any more, so every payload ever created must already be destroyed -- before the channel is torn down
    ELSE IF On("InvDestroyedExactlyOnce") /\ x.tracked /\ x.drained /\ x.held = 0 /\ Quiet
            /\ (\E i \in 1..Len(x.drops_at_quiescence) : x.drops_at_quiescence[i][2] # 1) THEN "InvDestroyedExactlyOnce"
    ELSE IF On("InvLeftoversLegal") /\ LeftBad(x) THEN Tag("InvLeftoversLegal", ~LeftBadP(x, TRUE))
    ELSE IF On("InvAllDelivered") /\ Quiet /\ Missing(x) THEN Tag("InvAllDelivered", ~MissingP(x, TRUE))
    ELSE IF On("InvNoGaps") /\ Quiet /\ x.drained /\ Gap(x) THEN Tag("InvNoGaps", ~GapP(x, TRUE))
    ELSE IF On("InvSameTotalOrder") /\ OrderClash(x) THEN "InvSameTotalOrder"
    ELSE IF On("InvSplitPartitions") /\ Quiet /\ SplitBad(x) THEN "InvSplitPartitions"
    ELSE IF On("InvNoLostWakeup") /\ Quiet /\ cancelled = 0 /\ ParkedWithWork(x) THEN (IF RacingLost(x) THEN "InvNoLostWakeupRacing" ELSE "InvNoLostWakeup")
    ELSE IF On("InvCancelEndsStreams") /\ Quiet /\ cancelled # 0 /\ ParkedAfterCancel THEN "InvCancelEndsStreams"
    ELSE IF On("InvCapacityRestored") /\ x.probe >= 0 /\ x.probe # x.probe_expected THEN Tag("InvCapacityRestored", AnyChurned)
    ELSE ""

LiveCount == Cardinality({s \in Ls : lis[s].st = "live"})
EvBadM == IF Ev.k = "ret" /\ ~IsNopRet /\ cur[P].op = "poll" /\ Ev.x.r = "item" /\ Ev.x.s \in Ls THEN DeliveryBad(Ev.x.s, Ev.x.v, Ev.x.addr)
          ELSE IF On("InvRunningCount") /\ Ev.k = "ret" /\ Ev.fn = "running" /\ cur[P].op = "running" /\ l = cur[P].c + 1 /\ churn = 0 /\ Ev.x.v # LiveCount THEN "InvRunningCount"
          ELSE IF On("InvRejectedSetterUninvoked") /\ Ev.k = "ret" /\ Ev.fn \in {"send_with", "send_async"} /\ ~Ev.x.ok /\ Ev.x.inv /\ (Ev.fn = "send_with" \/ Ev.x.done)
          THEN "InvRejectedSetterUninvoked"
          \* graceful close (unbounded timeout) returns only after every event accepted before the call was yielded by every listener whose
          \* lifetime covers it, with every stream ended and dropped and the channel no longer open (C06)
          ELSE IF On("InvCloseWaits") /\ Ev.k = "ret" /\ Ev.fn = "close" /\ cur[P].op = "close"
                  /\ (\E i \in Accepted : snd[i].r < cur[P].c /\ \E s \in Ls : Within(i, s) /\ lis[s].how # "old" /\ snd[i].v \notin Range(lis[s].del)) THEN "InvCloseWaitsForBufferedEvents"
          ELSE IF On("InvClosedAfterwards") /\ Ev.k = "ret" /\ Ev.fn = "close" /\ (Ev.x.v # 0 \/ Ev.x.running # 0 \/ Ev.x.open) THEN "InvClosedAfterwards"
          ELSE IF Ev.k = "final" THEN FinalBad(Ev.x)
          ELSE IF On("NoPanic") THEN EvBad ELSE ""

TraceNext == /\ l <= Len(Rec)
             /\ l' = l + 1
             /\ IF Skipping
                THEN UNCHANGED <<vars, bad>>
                ELSE /\ (((IsNopCall \/ IsNopRet) /\ UNCHANGED vars) \/ TReset \/ TCall \/ TRet \/ TNote \/ TFinal)
                     /\ bad' = EvBadM
                     /\ NoteBad(bad')

TraceSpec == TraceInit /\ [][TraceNext]_tvars
=============================================================================
