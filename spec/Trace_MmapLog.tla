--------------------------- MODULE Trace_MmapLog ---------------------------
(***************************************************************************)
(* Trace validation of the log (mmap) Multi channel against the L2          *)
(* specification MmapLog: every atomic operation the real channel performs  *)
(* on `publisher_tail`, `consumer_tail` and on a subscriber's `head` -- with *)
(* its operands and result -- must be the next step of that publisher /     *)
(* subscriber in MmapLog, and the C09 invariants of MmapLog must hold in     *)
(* every state of the validated behaviour.  Operations of the streams        *)
(* manager, wakers etc. are not part of this model (stuttering steps).       *)
(*   harness stream handle h  --subOf-->  subscriber index of the model      *)
(*   (the model numbers subscribers in creation order)                       *)
(***************************************************************************)
EXTENDS MmapLog, TraceBase

CONSTANTS MaxHandles      \* stream handles the harness may create in one run

VARIABLES subOf,      \* harness stream handle -> subscriber of the model (-1: none)
          polling,    \* per thread: the handle it is polling (-1: none)
          creating,   \* per thread: "" | "new" | "split" | "joined" | "loaded"
          vals,       \* slot -> value written into it
          curv,       \* per thread: the value being sent
          plen        \* per thread: length of the polled subscriber's `got` when the poll started

xvars == <<subOf, polling, creating, vals, curv, plen>>
tvars == <<vars, xvars, l, bad>>
Hs == 0..MaxHandles-1

\* a fresh channel with n subscribers for new events created before anything was sent
FreshKind(n) == [s \in Subs |-> IF s < n THEN "dyn" ELSE "none"]
FreshSubOf(n) == [h \in Hs |-> IF h < n THEN h ELSE -1]

TraceInit == /\ Init
             /\ subOf = FreshSubOf(0) /\ polling = [p \in Pubs |-> -1] /\ creating = [p \in Pubs |-> ""]
             /\ vals = [i \in 0..Total-1 |-> 0] /\ curv = [p \in Pubs |-> 0] /\ plen = [p \in Pubs |-> 0]
             /\ TBInit

TReset == /\ Ev.k = "reset"
          /\ ptail' = 0 /\ ctail' = 0 /\ log' = [i \in 0..Total-1 |-> <<None, 0>>]
          /\ ppc' = [p \in Pubs |-> "idle"] /\ preg' = [p \in Pubs |-> [left |-> PerPub, slot |-> 0, k |-> 0]]
          /\ kind' = FreshKind(Ev.x.streams) /\ head' = [s \in Subs |-> 0] /\ ftail' = [s \in Subs |-> 0] /\ got' = [s \in Subs |-> <<>>]
          /\ spc' = [s \in Subs |-> "idle"] /\ sreg' = [s \in Subs |-> 0] /\ mate' = [s \in Subs |-> None]
          /\ nextsub' = Ev.x.streams
          /\ subOf' = FreshSubOf(Ev.x.streams) /\ polling' = [p \in Pubs |-> -1] /\ creating' = [p \in Pubs |-> ""]
          /\ vals' = [i \in 0..Total-1 |-> 0] /\ curv' = [p \in Pubs |-> 0] /\ plen' = [p \in Pubs |-> 0]

Stutter == UNCHANGED <<vars, xvars>>
SendOps == {"send", "send_with"}
Sub(p) == subOf[polling[p]]

TCall == /\ Ev.k = "call" /\ ~IsNopCall
         /\ UNCHANGED vars
         /\ IF Ev.x.op \in SendOps
            THEN curv' = [curv EXCEPT ![P] = Ev.x.v] /\ UNCHANGED <<subOf, polling, creating, vals, plen>>
            ELSE IF Ev.x.op = "create"
            THEN creating' = [creating EXCEPT ![P] = Ev.x.how] /\ UNCHANGED <<subOf, polling, vals, curv, plen>>
            ELSE IF Ev.x.op = "poll" /\ Ev.x.s \in Hs /\ subOf[Ev.x.s] >= 0
            THEN /\ polling' = [polling EXCEPT ![P] = Ev.x.s]
                 /\ plen' = [plen EXCEPT ![P] = Len(got[subOf[Ev.x.s]])]
                 /\ UNCHANGED <<subOf, creating, vals, curv>>
            ELSE UNCHANGED xvars

\* subscriber indices the model handed out to the `n` streams a create call returned
Bind(hs, base) == [h \in Hs |-> IF \E i \in 1..Len(hs) : hs[i] = h THEN base + (CHOOSE i \in 1..Len(hs) : hs[i] = h) - 1 ELSE subOf[h]]

TRetCreate ==
    /\ Ev.fn = "create"
    /\ IF creating[P] = "joined"
       THEN /\ Subscribe("joined")                        \* no atomic operation: head := 0
            /\ subOf' = Bind(Ev.x.s, nextsub)
       ELSE /\ creating[P] = "loaded"                     \* the subscription's load of consumer_tail was seen
            /\ subOf' = Bind(Ev.x.s, nextsub - Len(Ev.x.s))
            /\ UNCHANGED vars
    /\ creating' = [creating EXCEPT ![P] = ""]
    /\ UNCHANGED <<polling, vals, curv, plen>>

TRetPoll ==
    /\ Ev.fn = "poll" /\ polling[P] >= 0
    /\ LET s == Sub(P) IN
       /\ spc[s] = "idle"
       /\ IF Ev.x.r = "item"
          THEN /\ Len(got[s]) = plen[P] + 1
               /\ vals[got[s][Len(got[s])]] = Ev.x.v
          ELSE Len(got[s]) = plen[P]
    /\ polling' = [polling EXCEPT ![P] = -1]
    /\ UNCHANGED <<vars, subOf, creating, vals, curv, plen>>

TRetSend == /\ Ev.fn \in SendOps
            /\ Ev.x.ok => ppc[P] = "idle"
            /\ Stutter

TRet == /\ Ev.k = "ret" /\ ~IsNopRet
        /\ \/ TRetCreate
           \/ TRetPoll
           \/ TRetSend
           \/ (Ev.fn \notin SendOps \cup {"create"} /\ ~(Ev.fn = "poll" /\ polling[P] >= 0) /\ Stutter)

\* the payload write is a plain store between the two atomics: it is folded into the publication CAS here
FillCas(p) == /\ ppc[p] = "fill" /\ ctail = preg[p].slot
              /\ log' = [log EXCEPT ![preg[p].slot] = <<p, preg[p].k>>]
              /\ ctail' = ctail + 1 /\ ppc' = [ppc EXCEPT ![p] = "idle"]
              /\ UNCHANGED <<ptail, preg, kind, head, ftail, got, spc, sreg, mate, nextsub>>

\* a fixed (old events) subscriber compares with its plain `fixed_tail`: no atomic operation between fetch_add and the decision
SubFAFixed(s) == /\ kind[s] = "fixed" /\ spc[s] = "idle"
                 /\ sreg' = [sreg EXCEPT ![s] = head[s]] /\ head' = [head EXCEPT ![s] = @ + 1]
                 /\ IF head[s] >= ftail[s]
                    THEN spc' = [spc EXCEPT ![s] = "recede"] /\ UNCHANGED got
                    ELSE got' = [got EXCEPT ![s] = Append(@, head[s])] /\ UNCHANGED spc
                 /\ UNCHANGED <<ptail, ctail, log, ppc, preg, kind, ftail, mate, nextsub>>

LogFns == {"publish", "consume", "subscribe_to_new_events_only", "subscribe_to_separated_old_and_new_events", "subscribe_to_joined_old_and_new_events"}

TOp ==
  \/ /\ IsOp("publish", "publisher_tail", "fa") /\ Ev.r = ptail /\ PubFA(P)
     /\ vals' = [vals EXCEPT ![ptail] = curv[P]] /\ UNCHANGED <<subOf, polling, creating, curv, plen>>
  \/ /\ IsOp("publish", "consumer_tail", "cas") /\ Ev.ok /\ Ev.a = preg[P].slot /\ FillCas(P) /\ UNCHANGED xvars
  \/ /\ IsOp("publish", "consumer_tail", "cas") /\ ~Ev.ok /\ ppc[P] = "fill" /\ ctail # preg[P].slot /\ Ev.r = ctail /\ Stutter
  \/ /\ IsOp("subscribe_to_new_events_only", "consumer_tail", "ld") /\ Ev.r = ctail /\ creating[P] = "new" /\ Subscribe("new")
     /\ creating' = [creating EXCEPT ![P] = "loaded"] /\ UNCHANGED <<subOf, polling, vals, curv, plen>>
  \/ /\ IsOp("subscribe_to_separated_old_and_new_events", "consumer_tail", "ld") /\ Ev.r = ctail /\ creating[P] = "split" /\ Subscribe("split")
     /\ creating' = [creating EXCEPT ![P] = "loaded"] /\ UNCHANGED <<subOf, polling, vals, curv, plen>>
  \/ /\ IsOp("consume", "head", "fa") /\ polling[P] >= 0 /\ Ev.r = head[Sub(P)]
     /\ (IF kind[Sub(P)] = "fixed" THEN SubFAFixed(Sub(P)) ELSE SubFA(Sub(P))) /\ UNCHANGED xvars
  \/ /\ IsOp("consume", "consumer_tail", "ld") /\ polling[P] >= 0 /\ Ev.r = ctail /\ kind[Sub(P)] = "dyn" /\ SubLoad(Sub(P)) /\ UNCHANGED xvars
  \/ /\ IsOp("consume", "head", "cas") /\ polling[P] >= 0 /\ Ev.ok /\ Ev.b = sreg[Sub(P)] /\ SubRecede(Sub(P)) /\ UNCHANGED xvars
  \/ /\ IsOp("consume", "head", "cas") /\ polling[P] >= 0 /\ ~Ev.ok /\ spc[Sub(P)] = "recede" /\ Stutter
  \/ /\ Ev.k = "op" /\ Ev.fn \notin LogFns /\ Stutter        \* streams manager, wakers, ...: not part of this model

TOther == Ev.k \in {"park", "unpark", "wake", "suspended", "panic", "final", "slept"} /\ Stutter

\* the C09 invariants of MmapLog, evaluated on the behaviour of the real channel
BadOf == IF ~InvTails THEN "InvTails"
         ELSE IF ~InvPublishedOnly THEN "InvPublishedOnly"
         ELSE IF ~InvOneOrder THEN "InvOneOrder"
         ELSE IF ~InvSplit THEN "InvSplit"
         ELSE ""

TraceNext == /\ l <= Len(Rec)
             /\ l' = l + 1
             /\ IF Skipping
                THEN UNCHANGED <<vars, xvars, bad>>
                ELSE /\ (((IsNopCall \/ IsNopRet) /\ Stutter) \/ TReset \/ TCall \/ TRet \/ TOp \/ TOther)
                     /\ bad' = Worst(EvBad, BadOf')
                     /\ NoteBad(bad')

TraceSpec == TraceInit /\ [][TraceNext]_tvars
=============================================================================
