-------------------------- MODULE Trace_AbsExecutor --------------------------
(***************************************************************************)
(* L1 (abstract) specification of the stream executors and of the Uni /      *)
(* Multi life cycle, as a trace specification over the events logged by the  *)
(* gated tokio drivers (harness/src/exec_suts.rs, exec_multi.rs):            *)
(*   xstart i ex | xend i ex out | xcancel i ex | xerr i | xclose ex stats   *)
(*   xsend v ok | xclosecall | xcloseret r | xstate | xuniclose              *)
(* The case (executor kind, timeout, instruments, limit, items / events,     *)
(* mode) comes with the reset event.                                         *)
(*  C11  one outcome per item; counters add up (metrics on); error callback  *)
(*       exactly once per failed item; later items still processed; a slow   *)
(*       future is cancelled and counted as timed out; in-flight <= limit    *)
(*  C12  close callback exactly once, after the last item, in an ended       *)
(*       state, finish >= start; Uni callback once; sequential old -> new    *)
(*  C06  graceful close returns only after every accepted event was          *)
(*       processed; afterwards no stream is left and the channel is closed   *)
(***************************************************************************)
EXTENDS Integers, Sequences, FiniteSets, TraceBase

CONSTANTS Checks, MaxId

VARIABLES cfg,        \* the case
          st,         \* item id -> "new" | "running" | "ok" | "err" | "cancelled"
          errs,       \* item ids for which the error callback ran (a sequence: duplicates matter)
          closes,     \* executor ids whose close callback ran (a sequence)
          sent,       \* accepted event values, in order, with a flag: before / after the close call
          phase,      \* "open" | "closing" | "closed"
          inflight, unic

vars == <<cfg, st, errs, closes, sent, phase, inflight, unic>>
tvars == <<vars, l, bad>>
On(name) == name \in Checks
Ids == 0..MaxId

NoCfg == [fam |-> "none"]
TraceInit == /\ cfg = NoCfg /\ st = [i \in Ids |-> "new"] /\ errs = <<>> /\ closes = <<>> /\ sent = <<>> /\ phase = "open" /\ inflight = 0 /\ unic = 0
             /\ TBInit

TReset == /\ Ev.k = "reset"
          /\ cfg' = Ev.x /\ st' = [i \in Ids |-> "new"] /\ errs' = <<>> /\ closes' = <<>> /\ sent' = <<>> /\ phase' = "open" /\ inflight' = 0 /\ unic' = 0

Count(s, v) == Cardinality({i \in 1..Len(s) : s[i] = v})
Range(s) == {s[i] : i \in 1..Len(s)}
Has(f) == f \in DOMAIN cfg

\* ---- the case
Fam == cfg.fam
Futures == cfg.kind \in {"fut_fallible", "fut"}
Fallible == cfg.kind \in {"fut_fallible", "fallible", "nonfut_fallible"}
HasErrCb == cfg.kind \in {"fut_fallible", "fallible"}
Metrics == IF Has("instr") THEN cfg.instr \in {7, 103, 11, 107} ELSE TRUE      \* every instrument set with the COUNTERS bit
TimeoutOn == Has("timeout") /\ cfg.timeout /\ Futures
NItems == IF Fam = "exec" THEN Len(cfg.items) ELSE 0
KindOf(i) == cfg.items[i + 1]
\* the outcome the statement prescribes for item i of a fixed item sequence
Exp(i) == IF TimeoutOn /\ KindOf(i) \in {"slow", "slowerr"} THEN "cancelled"
          ELSE IF Fallible /\ KindOf(i) \in {"err", "slowerr"} THEN "err"
          ELSE "ok"
NExp(o) == Cardinality({i \in 0..NItems-1 : Exp(i) = o})
Listeners == IF Fam = "multi" THEN (IF cfg.mode = "oldies" THEN 2 ELSE cfg.listeners) ELSE 1
ExOf(i) == IF Fam = "multi" THEN i % 10 ELSE 0
ValOf(i) == IF Fam = "multi" THEN i \div 10 ELSE i

\* ---- events
TStart == /\ Ev.k = "xstart"
          /\ st' = [st EXCEPT ![Ev.a] = "running"] /\ inflight' = IF Futures THEN inflight + 1 ELSE inflight
          /\ UNCHANGED <<cfg, errs, closes, sent, phase, unic>>
TEnd == /\ Ev.k = "xend"
        /\ st' = [st EXCEPT ![Ev.a] = Ev.x.out] /\ inflight' = IF Futures THEN inflight - 1 ELSE inflight
        /\ UNCHANGED <<cfg, errs, closes, sent, phase, unic>>
TCancel == /\ Ev.k = "xcancel"
           /\ st' = [st EXCEPT ![Ev.a] = "cancelled"] /\ inflight' = inflight - 1
           /\ UNCHANGED <<cfg, errs, closes, sent, phase, unic>>
TErr == Ev.k = "xerr" /\ errs' = Append(errs, Ev.a) /\ UNCHANGED <<cfg, st, closes, sent, phase, inflight, unic>>
TClose == Ev.k = "xclose" /\ closes' = Append(closes, Ev.a) /\ UNCHANGED <<cfg, st, errs, sent, phase, inflight, unic>>
TSend == /\ Ev.k = "xsend"
         /\ sent' = IF Ev.x.ok THEN Append(sent, [v |-> Ev.a, early |-> (phase = "open"), old |-> (IF "old" \in DOMAIN Ev.x THEN Ev.x.old ELSE FALSE)]) ELSE sent
         /\ UNCHANGED <<cfg, st, errs, closes, phase, inflight, unic>>
TPhase == \/ Ev.k = "xclosecall" /\ phase' = "closing" /\ UNCHANGED <<cfg, st, errs, closes, sent, inflight, unic>>
          \/ Ev.k \in {"xcloseret", "xnocloseret"} /\ phase' = "closed" /\ UNCHANGED <<cfg, st, errs, closes, sent, inflight, unic>>
TUni == Ev.k = "xuniclose" /\ unic' = unic + 1 /\ UNCHANGED <<cfg, st, errs, closes, sent, phase, inflight>>
TOther == Ev.k \in {"xstate", "xspawned", "xnoclose", "panic", "final"} /\ UNCHANGED vars

\* ---- verdicts (on the event, in the state before it)
Done(i) == st[i] \in {"ok", "err", "cancelled"}
\* item ids an accepted event gives rise to: one per entitled executor
Entitled(e) == IF Fam = "uni" THEN {e.v}
               ELSE IF cfg.mode = "oldies" THEN {e.v * 10 + (IF e.old THEN 0 ELSE 1)}
               ELSE IF cfg.mode = "cancel_one" THEN {e.v * 10}
               ELSE {e.v * 10 + ex : ex \in 0..Listeners-1}
Owed == UNION {Entitled(sent[k]) : k \in {k \in 1..Len(sent) : sent[k].early}}
ItemsOf(ex) == {i \in Ids : st[i] # "new" /\ ExOf(i) = ex}
OldDone == \A k \in 1..Len(sent) : sent[k].old => Done(sent[k].v * 10)

EvBadX ==
    IF Ev.k = "xstart" /\ On("InvItemStartedOnce") /\ st[Ev.a] # "new" THEN "InvItemStartedOnce"
    ELSE IF Ev.k = "xstart" /\ On("InvConcurrencyLimit") /\ Futures /\ Fam = "exec" /\ inflight + 1 > cfg.limit THEN "InvConcurrencyLimit"
    ELSE IF Ev.k = "xstart" /\ On("InvNoItemAfterClose") /\ ExOf(Ev.a) \in Range(closes) THEN "InvCloseCallbackAfterLastItem"
    ELSE IF Ev.k = "xstart" /\ On("InvSequentialTransition") /\ Fam = "multi" /\ cfg.mode = "oldies" /\ cfg.sequential /\ ExOf(Ev.a) = 1 /\ ~OldDone THEN "InvSequentialTransition"
    ELSE IF Ev.k \in {"xend", "xcancel"} /\ On("InvOneOutcomePerItem") /\ st[Ev.a] # "running" THEN "InvOneOutcomePerItem"
    ELSE IF Ev.k \in {"xend", "xcancel"} /\ On("InvNoItemAfterClose") /\ ExOf(Ev.a) \in Range(closes) THEN "InvCloseCallbackAfterLastItem"
    ELSE IF Ev.k = "xcancel" /\ On("InvNoSpuriousCancel") /\ ~(TimeoutOn /\ (Fam # "exec" \/ KindOf(Ev.a) \in {"slow", "slowerr"})) THEN "InvNoSpuriousCancel"
    ELSE IF Ev.k = "xerr" /\ On("InvErrCallbackExactlyOnce") /\ (st[Ev.a] # "err" \/ Ev.a \in Range(errs)) THEN "InvErrCallbackExactlyOnce"
    ELSE IF Ev.k = "xclose" /\ On("InvCloseCallbackOnce") /\ Ev.a \in Range(closes) THEN "InvCloseCallbackOnce"
    ELSE IF Ev.k = "xclose" /\ On("InvCloseCallbackAfterLastItem") /\ (\E i \in ItemsOf(Ev.a) : st[i] = "running") THEN "InvCloseCallbackAfterLastItem"
    \* (a failed item is fully processed only once its error callback has run: the close callback comes after that, and no error callback after it)
    ELSE IF Ev.k = "xclose" /\ On("InvCloseCallbackAfterLastItem") /\ HasErrCb /\ (\E i \in ItemsOf(Ev.a) : st[i] = "err" /\ i \notin Range(errs)) THEN "InvCloseCallbackAfterLastItem"
    ELSE IF Ev.k = "xerr" /\ On("InvCloseCallbackAfterLastItem") /\ ExOf(Ev.a) \in Range(closes) THEN "InvCloseCallbackAfterLastItem"
    ELSE IF Ev.k = "xclose" /\ On("InvAllItemsProcessed") /\ Fam = "exec" /\ (\E i \in 0..NItems-1 : ~Done(i)) THEN "InvAllItemsProcessed"
    ELSE IF Ev.k = "xclose" /\ On("InvOutcomeMatches") /\ Fam = "exec" /\ (\E i \in 0..NItems-1 : Done(i) /\ st[i] # Exp(i)) THEN "InvOutcomeMatches"
    ELSE IF Ev.k = "xclose" /\ On("InvErrCallbackExactlyOnce") /\ Fam = "exec" /\ HasErrCb /\ (\E i \in 0..NItems-1 : st[i] = "err" /\ Count(errs, i) # 1) THEN "InvErrCallbackExactlyOnce"
    ELSE IF Ev.k = "xclose" /\ On("InvErrCallbackExactlyOnce") /\ Fam = "exec" /\ ~HasErrCb /\ Len(errs) > 0 THEN "InvErrCallbackExactlyOnce"
    ELSE IF Ev.k = "xclose" /\ On("InvCountersAddUp") /\ Fam = "exec" /\ Metrics
            /\ (Ev.x.ok # NExp("ok") \/ Ev.x.failed # NExp("err") \/ Ev.x.timedout # NExp("cancelled")) THEN "InvCountersAddUp"
    ELSE IF Ev.k = "xclose" /\ On("InvEndedStatus")
            /\ ~(Ev.x.status = "StreamEnded" \/ (Ev.x.status = "ProgrammaticallyEnded" /\ Fam = "multi" /\ cfg.mode = "cancel_one" /\ Ev.a = 0)) THEN "InvEndedStatus"
    ELSE IF Ev.k = "xclose" /\ On("InvFinishAfterStart") /\ ~Ev.x.finish_ge_start THEN "InvFinishAfterStart"
    ELSE IF Ev.k = "xuniclose" /\ On("InvUniCloseOnce") /\ unic >= 1 THEN "InvUniCloseOnce"
    ELSE IF Ev.k = "xcloseret" /\ On("InvCloseWaits") /\ (\E i \in Owed : st[i] = "new") THEN "InvCloseWaitsForBufferedEvents"
    ELSE IF Ev.k = "xcloseret" /\ On("InvCloseWaits") /\ (\E i \in Owed : st[i] = "running") THEN "InvCloseWaitsForInFlightItems"
    ELSE IF Ev.k = "xcloseret" /\ On("InvCloseReturnsTrue") /\ ~Ev.x.r THEN "InvCloseReturnsTrue"
    ELSE IF Ev.k = "xnocloseret" /\ On("InvCloseReturnsTrue") THEN "InvCloseTerminates"
    ELSE IF Ev.k = "xnoclose" /\ On("InvCloseCallbackOnce") THEN "InvCloseCallbackOnce"
    ELSE IF Ev.k = "xstate" /\ On("InvClosedAfterwards") /\ cfg.mode # "cancel_one" /\ (Ev.x.running # 0 \/ Ev.x.open) THEN "InvClosedAfterwards"
    ELSE IF Ev.k = "xstate" /\ On("InvClosedAfterwards") /\ cfg.mode = "cancel_one" /\ Ev.x.running # Listeners - 1 THEN "InvOnlyTargetedStreamEnds"
    ELSE IF Ev.k = "final" /\ On("InvNoEventDiscarded") /\ Fam # "exec" /\ (\E i \in Owed : ~Done(i)) THEN "InvNoEventDiscarded"
    ELSE IF Ev.k = "final" /\ On("InvCloseCallbackOnce") /\ Fam = "exec" /\ Len(closes) # 1 THEN "InvCloseCallbackOnce"
    ELSE IF Ev.k = "final" /\ On("InvCloseCallbackOnce") /\ Fam = "multi" /\ phase = "closed" /\ cfg.mode # "cancel_one" /\ (\E ex \in 0..Listeners-1 : Count(closes, ex) # 1) THEN "InvCloseCallbackOnce"
    ELSE IF Ev.k = "final" /\ On("InvCloseCallbackOnce") /\ Fam = "multi" /\ phase = "closed" /\ cfg.mode = "cancel_one" /\ Count(closes, 0) # 1 THEN "InvCloseCallbackOnce"
    ELSE IF Ev.k = "final" /\ On("InvUniCloseOnce") /\ Fam = "uni" /\ phase = "closed" /\ unic # 1 THEN "InvUniCloseOnce"
    ELSE IF Ev.k = "final" /\ On("InvConcurrencyLimit") /\ Fam = "exec" /\ Futures /\ Ev.x.max_inflight > cfg.limit THEN "InvConcurrencyLimit"
    ELSE IF Ev.k = "final" /\ On("InvLateEventOnlyToLiveListeners") /\ Fam = "multi" /\ cfg.mode = "cancel_one" /\ st[770] # "new" THEN "InvOnlyTargetedStreamEnds"
    ELSE IF Ev.k = "final" /\ On("InvLateEventOnlyToLiveListeners") /\ Fam = "multi" /\ cfg.mode = "cancel_one" /\ (\E ex \in 1..Listeners-1 : ~Done(770 + ex)) THEN "InvOnlyTargetedStreamEnds"
    ELSE IF Ev.k = "final" /\ On("InvLateEventOnlyToLiveListeners") /\ Fam = "uni" /\ st[7777] # "new" THEN "InvClosedAfterwards"
    ELSE IF On("NoPanic") THEN EvBad ELSE ""

TraceNext == /\ l <= Len(Rec)
             /\ l' = l + 1
             /\ IF Skipping
                THEN UNCHANGED <<vars, bad>>
                ELSE /\ (TReset \/ TStart \/ TEnd \/ TCancel \/ TErr \/ TClose \/ TSend \/ TPhase \/ TUni \/ TOther)
                     /\ bad' = EvBadX
                     /\ NoteBad(bad')

TraceSpec == TraceInit /\ [][TraceNext]_tvars
=============================================================================
