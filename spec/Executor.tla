------------------------------ MODULE Executor ------------------------------
(***************************************************************************)
(* Specification of one `StreamExecutor` (/repo/src/stream_executor.rs)     *)
(* draining a pipeline of items: `for_each` (limit 1) / `for_each_concurrent`*)
(* (the source is only polled while fewer than Limit item futures are in    *)
(* progress), the per-item outcome accounting (ok / failed / timed out),    *)
(* the error callback awaited inside the item future, the end of the        *)
(* stream, the state change and the close callback.                         *)
(* Items: "ok" | "err" | "slow" | "slowerr"  (slow = exceeds the timeout)   *)
(***************************************************************************)
EXTENDS Integers, Sequences, FiniteSets, TLC

CONSTANTS Limit, Items, Futures, Fallible, TimeoutOn, HasErrCb

VARIABLES status, nxt, st, inflight, ok, failed, timedout, errcb, closed
vars == <<status, nxt, st, inflight, ok, failed, timedout, errcb, closed>>

N == Len(Items)
Idx == 1..N
Exp(i) == IF Futures /\ TimeoutOn /\ Items[i] \in {"slow", "slowerr"} THEN "timedout"
          ELSE IF Fallible /\ Items[i] \in {"err", "slowerr"} THEN "err" ELSE "ok"
Cap == IF Futures THEN Limit ELSE 1

Init == /\ status = "NotStarted" /\ nxt = 1 /\ st = [i \in Idx |-> "new"] /\ inflight = 0
        /\ ok = 0 /\ failed = 0 /\ timedout = 0 /\ errcb = [i \in Idx |-> 0] /\ closed = 0

StartExec == status = "NotStarted" /\ status' = "Running" /\ UNCHANGED <<nxt, st, inflight, ok, failed, timedout, errcb, closed>>
Start == /\ status = "Running" /\ nxt <= N /\ inflight < Cap
         /\ st' = [st EXCEPT ![nxt] = "running"] /\ inflight' = inflight + 1 /\ nxt' = nxt + 1
         /\ UNCHANGED <<status, ok, failed, timedout, errcb, closed>>
FinishOk(i) == /\ st[i] = "running" /\ Exp(i) = "ok"
               /\ st' = [st EXCEPT ![i] = "ok"] /\ ok' = ok + 1 /\ inflight' = inflight - 1
               /\ UNCHANGED <<status, nxt, failed, timedout, errcb, closed>>
FinishErr(i) == /\ st[i] = "running" /\ Exp(i) = "err"
                /\ failed' = failed + 1
                /\ IF HasErrCb THEN st' = [st EXCEPT ![i] = "errcb"] /\ UNCHANGED inflight
                   ELSE st' = [st EXCEPT ![i] = "err"] /\ inflight' = inflight - 1
                /\ UNCHANGED <<status, nxt, ok, timedout, errcb, closed>>
ErrCallback(i) == /\ st[i] = "errcb"
                  /\ errcb' = [errcb EXCEPT ![i] = @ + 1] /\ st' = [st EXCEPT ![i] = "err"] /\ inflight' = inflight - 1
                  /\ UNCHANGED <<status, nxt, ok, failed, timedout, closed>>
TimeOut(i) == /\ st[i] = "running" /\ Exp(i) = "timedout"
              /\ st' = [st EXCEPT ![i] = "timedout"] /\ timedout' = timedout + 1 /\ inflight' = inflight - 1
              /\ UNCHANGED <<status, nxt, ok, failed, errcb, closed>>
StreamEnds == /\ status = "Running" /\ nxt > N /\ inflight = 0
              /\ status' = "StreamEnded"
              /\ UNCHANGED <<nxt, st, inflight, ok, failed, timedout, errcb, closed>>
CloseCallback == /\ status = "StreamEnded" /\ closed = 0 /\ closed' = 1
                 /\ UNCHANGED <<status, nxt, st, inflight, ok, failed, timedout, errcb>>
Done == closed = 1 /\ UNCHANGED vars
Next == StartExec \/ Start \/ (\E i \in Idx : FinishOk(i) \/ FinishErr(i) \/ ErrCallback(i) \/ TimeOut(i)) \/ StreamEnds \/ CloseCallback \/ Done

Finished(i) == st[i] \in {"ok", "err", "timedout"}
CountExp(o) == Cardinality({i \in Idx : Exp(i) = o})
InvInFlight == inflight <= Cap /\ inflight = Cardinality({i \in Idx : st[i] \in {"running", "errcb"}})
InvOneOutcome == \A i \in Idx : Finished(i) => st[i] = Exp(i)
InvErrCb == \A i \in Idx : errcb[i] <= 1 /\ (errcb[i] = 1 => Exp(i) = "err" /\ HasErrCb) /\ (st[i] = "err" /\ HasErrCb => errcb[i] = 1)
InvCounters == closed = 1 => (ok = CountExp("ok") /\ failed = CountExp("err") /\ timedout = CountExp("timedout") /\ ok + failed + timedout = N)
InvCloseOnceAtEnd == closed <= 1 /\ (closed = 1 => \A i \in Idx : Finished(i))
InvStatus == closed = 1 => status = "StreamEnded"
=============================================================================
