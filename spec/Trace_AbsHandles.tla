-------------------------- MODULE Trace_AbsHandles --------------------------
(***************************************************************************)
(* L1 (abstract) specification of OgreArc / OgreUnique handles as a trace   *)
(* specification over API-level events only (C14, C05): one pooled value,   *)
(* handles are names.                                                       *)
(*   - dereferencing a live handle yields the creation value                *)
(*   - the reported reference count equals the number of live shared        *)
(*     handles when no other operation is in progress                       *)
(*   - the value is destroyed exactly when the last handle is dropped:      *)
(*     never while a handle certainly exists, and by the drop after which   *)
(*     no handle exists and none is being created or dropped                *)
(*   - converting a unique handle into a shared one keeps the value         *)
(*   - at the end: nothing used after free, the slot is back in the pool,   *)
(*     the value destroyed at most once                                     *)
(* Atomic-operation events are ignored: this is the oracle used when the    *)
(* code no longer follows the L2 specification OgreArc.                     *)
(***************************************************************************)
EXTENDS Integers, Sequences, FiniteSets, TraceBase

CONSTANTS Procs, Names
VARIABLES live,     \* handles that certainly exist (creation returned, drop not yet called)
          cur,      \* per thread: operation in progress [op, h, to]
          uniq      \* name of a unique (not yet converted) handle, or ""
vars == <<live, cur, uniq>>
tvars == <<vars, l, bad>>
NoCur == [op |-> "none", h |-> "", to |-> <<>>]

TraceInit == live = {} /\ cur = [p \in Procs |-> NoCur] /\ uniq = "" /\ TBInit
TReset == Ev.k = "reset" /\ live' = {} /\ cur' = [p \in Procs |-> NoCur] /\ uniq' = ""
SeqNames(a) == [i \in 1..Len(a) |-> a[i]]
SetOf(s) == {s[i] : i \in 1..Len(s)}

TCall == /\ Ev.k = "call" /\ ~IsNopCall
         /\ \/ Ev.x.op = "new" /\ live' = live \cup {Ev.x.to} /\ UNCHANGED <<cur, uniq>>
            \/ Ev.x.op = "new2" /\ live' = live \cup {Ev.x.to, Ev.x.to2} /\ UNCHANGED <<cur, uniq>>
            \/ Ev.x.op = "newu" /\ live' = live \cup {Ev.x.to} /\ uniq' = Ev.x.to /\ UNCHANGED cur
            \/ Ev.x.op = "clone" /\ cur' = [cur EXCEPT ![P] = [op |-> "clone", h |-> Ev.x.from, to |-> <<Ev.x.to>>]] /\ UNCHANGED <<live, uniq>>
            \/ Ev.x.op = "incr" /\ cur' = [cur EXCEPT ![P] = [op |-> "clone", h |-> Ev.x.from, to |-> SeqNames(Ev.x.tos)]] /\ UNCHANGED <<live, uniq>>
            \/ Ev.x.op = "drop" /\ cur' = [cur EXCEPT ![P] = [op |-> "drop", h |-> Ev.x.h, to |-> <<>>]] /\ live' = live \ {Ev.x.h} /\ UNCHANGED uniq
            \/ Ev.x.op \in {"refs", "deref", "into_arc"} /\ cur' = [cur EXCEPT ![P] = [op |-> Ev.x.op, h |-> "", to |-> <<>>]] /\ UNCHANGED <<live, uniq>>

TRet == /\ Ev.k = "ret" /\ ~IsNopRet
        /\ IF Ev.fn \in {"new", "new2", "newu"} THEN UNCHANGED vars
           ELSE /\ live' = IF cur[P].op = "clone" THEN live \cup SetOf(cur[P].to) ELSE live
                /\ uniq' = IF Ev.fn = "into_arc" \/ (Ev.fn = "drop" /\ cur[P].h = uniq) THEN "" ELSE uniq
                /\ cur' = [cur EXCEPT ![P] = NoCur]

TOther == Ev.k \in {"op", "panic", "wake", "final", "park", "unpark"} /\ UNCHANGED vars

Cloning == {p \in Procs : cur[p].op = "clone"}
Dropping == {p \in Procs : cur[p].op = "drop"}
OthersIdle == \A p \in Procs \ {P} : cur[p].op = "none"
EvBadH ==
    IF Ev.k = "ret" /\ Ev.fn = "deref" /\ Ev.x.v # Ev.x.expected THEN "InvDerefValue"
    ELSE IF Ev.k = "ret" /\ Ev.fn = "refs" /\ OthersIdle /\ uniq = "" /\ Ev.x.v # Cardinality(live) THEN "InvRefCount"
    ELSE IF Ev.k = "ret" /\ Ev.fn = "drop" /\ Ev.x.destroyed /\ live # {} THEN "InvDestroyedWhileHeld"
    ELSE IF Ev.k = "ret" /\ Ev.fn = "drop" /\ Ev.x.dcount > 1 THEN "InvDestroyedAtMostOnce"
    ELSE IF Ev.k = "ret" /\ Ev.fn = "drop" /\ ~Ev.x.destroyed /\ live = {} /\ Cloning = {} /\ (Dropping \ {P}) = {} THEN "InvDestroyedWithLastHandle"
    ELSE IF Ev.k = "ret" /\ Ev.fn = "into_arc" /\ Ev.x.destroyed THEN "InvIntoArcKeepsValue"
    ELSE IF Ev.k = "final" /\ ~Ev.x.hard /\ Len(Ev.x.anomalies) > 0 THEN "InvNoUseAfterFree"
    ELSE IF Ev.k = "final" /\ ~Ev.x.hard /\ (\A p \in Procs : cur[p].op = "none") /\ Ev.x.free # Ev.x.pool - Ev.x.live_values THEN "InvSlotReturnedToPool"
    ELSE IF Ev.k = "final" /\ ~Ev.x.hard /\ (\E i \in 1..Len(Ev.x.drops) : Ev.x.drops[i][2] > 1) THEN "InvDestroyedAtMostOnce"
    ELSE EvBad

TraceNext == /\ l <= Len(Rec)
             /\ l' = l + 1
             /\ IF Skipping
                THEN UNCHANGED <<vars, bad>>
                ELSE /\ (((IsNopCall \/ IsNopRet) /\ UNCHANGED vars) \/ TReset \/ TCall \/ TRet \/ TOther)
                     /\ bad' = EvBadH
                     /\ NoteBad(bad')
TraceSpec == TraceInit /\ [][TraceNext]_tvars
=============================================================================
