CONSTANTS
  N = 2
  W = 64
  Procs = {0, 1, 2, 3}
  Origins = {0}
  OverflowChecks = TRUE
  RelaxEmpty = FALSE
  Prefill = FALSE
SPECIFICATION TraceSpec
POSTCONDITION TraceAccepted
CHECK_DEADLOCK FALSE
