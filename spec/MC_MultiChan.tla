---------------------------- MODULE MC_MultiChan ----------------------------
(***************************************************************************)
(* Exhaustive model-checking wrapper of MultiChan: threads execute fixed    *)
(* scripts of channel operations.  A `drive` operation is the executor task *)
(* of one listener (poll; on Pending park until this task's waker is        *)
(* invoked -- a sticky notification; stop at end of stream or after `max`   *)
(* items).  Stream ids in the scripts are channel stream ids (the vacant    *)
(* queue hands them out first-in first-out, so they are known statically as *)
(* long as one thread at a time creates / drops listeners).                 *)
(* Scheduling-step structure (TLC's paths map 1:1 onto schedules of the     *)
(* real code under the deterministic scheduler):                            *)
(*   MCCall(p)    start of the next scripted operation                      *)
(*   MCPoll(p)    a drive's next poll begins                                *)
(*   MCUnpark(p)  a parked task is resumed after its waker was invoked      *)
(*   MCOp(p)      one scheduling point of the channel code                  *)
(*   MCRet(p)     return of an operation (same step as its last point)      *)
(***************************************************************************)
EXTENDS MultiChan

CONSTANTS Script,    \* per thread: sequence of operations
          Initial    \* listeners that exist from the start (ids 0..n-1)

VARIABLES opi,     \* per thread: index of the next scripted operation
          tpc,     \* per thread: "" (not driving) | "ready" | "polling" | "parked"
          tgot,    \* per thread: items the current drive has received
          slept    \* per thread: asleep in a polling loop of close, and nobody else has taken a step since

mcvars == <<mvars, opi, tpc, tgot, slept>>

O(o, v, s, m) == [op |-> o, v |-> v, s |-> s, max |-> m]
S(v)     == O("send", v, 0, 0)
Pl(s)    == O("poll", 0, s, 0)
Dv(s, m) == O("drive", 0, s, m)
X        == O("cancel", 0, 0, 0)
Cr       == O("create", 0, 0, 0)
Dp(s)    == O("drop", 0, s, 0)
Cl       == O("close", 0, 0, 0)

\* C03: a fixed set of listeners
Script_1p2l   == << <<S(11), S(12)>>, <<Dv(0, 2)>>, <<Dv(1, 2)>> >>
Script_2p1l   == << <<S(11)>>, <<S(21)>>, <<Dv(0, 2)>> >>
Script_2p2l   == << <<S(11)>>, <<S(21)>>, <<Dv(0, 2)>>, <<Dv(1, 2)>> >>
Script_1p2l3  == << <<S(11), S(12), S(13)>>, <<Dv(0, 3)>>, <<Pl(1), Pl(1), Pl(1), Pl(1)>> >>
\* C04: three sends against one driven listener (the third reserves its slot while two events are still queued)
Script_l3     == << <<S(11), S(12), S(13)>>, <<Dv(0, 3)>> >>
Script_2l3    == << <<S(11), S(12), S(13)>>, <<Dv(0, 3)>>, <<Dv(1, 3)>> >>
\* C07: cancel_all_streams against the polls of two listeners
Script_cancel == << <<S(11)>>, <<X>>, <<Dv(0, 9)>>, <<Dv(1, 9)>> >>
Script_cancel1 == << <<S(11)>>, <<X>>, <<Dv(0, 9)>> >>
\* C10 / C17: listeners created / dropped (between / during sends); one listener (id 0) exists throughout
Script_add    == << <<S(11), S(12)>>, <<Cr, Dv(1, 9)>>, <<Dv(0, 2)>> >>
Script_remove == << <<S(11), S(12)>>, <<Pl(0), Dp(0)>>, <<Dv(1, 2)>> >>
Script_add1   == << <<S(11)>>, <<Cr, Pl(1), Pl(1)>> >>
Script_remove1 == << <<S(11)>>, <<Dp(0)>>, <<Pl(1), Pl(1)>> >>
Script_recycle == << <<S(11), Dp(0), Cr, S(12), Pl(0), Pl(0)>>, <<Dv(1, 2)>> >>
\* C06: graceful close against a sender and a driven listener that is dropped when its stream ends
Script_close  == << <<S(11)>>, <<Cl>>, <<Dv(0, 9), Dp(0)>> >>
Script_close2 == << <<S(11)>>, <<Cl>>, <<Dv(0, 9), Dp(0)>>, <<Dv(1, 9), Dp(1)>> >>
Script_seq    == << <<S(11), Cr, S(12), Dp(0), S(13), Cr, S(14), Pl(0), Pl(0), Pl(1), Pl(1), Pl(1), Pl(1)>> >>

MCInit == MInit(Initial) /\ opi = [p \in Procs |-> 1] /\ tpc = [p \in Procs |-> ""] /\ tgot = [p \in Procs |-> 0] /\ slept = [p \in Procs |-> FALSE]

CurOp(p) == Script[p + 1][opi[p]]
HasOp(p) == opi[p] <= Len(Script[p + 1])

MCCall0(p) ==
    /\ HasOp(p) /\ pc[p] = "idle" /\ tpc[p] = ""
    /\ LET o == CurOp(p) IN
       IF o.op = "drive"
       THEN \* the task clears its notification and is about to poll
            /\ notified' = [notified EXCEPT ![p] = FALSE]
            /\ tpc' = [tpc EXCEPT ![p] = "ready"] /\ tgot' = [tgot EXCEPT ![p] = 0]
            /\ UNCHANGED <<ring, sm, waker, wlock, keep, pc, reg, gh, og, opi>>
       ELSE /\ CASE o.op = "send"   -> CallSend(p, o.v)
                 [] o.op = "poll"   -> CallPoll(p, o.s)
                 [] o.op = "cancel" -> CallCancel(p)
                 [] o.op = "create" -> CallCreate(p)
                 [] o.op = "drop"   -> CallDrop(p, o.s)
                 [] o.op = "close"  -> CallClose(p)
            /\ opi' = [opi EXCEPT ![p] = @ + 1] /\ UNCHANGED <<tpc, tgot>>

MCPoll0(p) == /\ tpc[p] = "ready" /\ pc[p] = "idle"
             /\ CallPoll(p, CurOp(p).s)
             /\ tpc' = [tpc EXCEPT ![p] = "polling"]
             /\ UNCHANGED <<opi, tgot>>

MCUnpark0(p) == /\ tpc[p] = "parked" /\ notified[p]
               /\ notified' = [notified EXCEPT ![p] = FALSE]
               /\ tpc' = [tpc EXCEPT ![p] = "ready"]
               /\ UNCHANGED <<ring, sm, waker, wlock, keep, pc, reg, gh, og, opi, tgot>>

MCOp0(p) == ChanStep(p) /\ UNCHANGED <<opi, tpc, tgot>>

\* return; for a drive: decide how the task goes on (the notification is cleared right before the next poll is started)
MCRet0(p) ==
    /\ pc[p] = "cret"
    /\ IF tpc[p] # "polling"
       THEN ChanRet(p) /\ UNCHANGED <<opi, tpc, tgot>>
       ELSE LET o == CurOp(p)
                res == reg[p].res IN
            /\ pc' = [pc EXCEPT ![p] = "idle"]
            /\ got' = IF res = "item" THEN [got EXCEPT ![reg[p].sid] = Append(@, reg[p].rv)] ELSE got
            /\ UNCHANGED <<ring, sm, waker, wlock, keep, reg, old, owed, done, life, og>>
            /\ IF res = "item"
               THEN IF tgot[p] + 1 < o.max
                    THEN /\ tgot' = [tgot EXCEPT ![p] = @ + 1] /\ tpc' = [tpc EXCEPT ![p] = "ready"]
                         /\ notified' = [notified EXCEPT ![p] = FALSE] /\ UNCHANGED opi
                    ELSE /\ tgot' = [tgot EXCEPT ![p] = @ + 1] /\ tpc' = [tpc EXCEPT ![p] = ""]
                         /\ opi' = [opi EXCEPT ![p] = @ + 1] /\ UNCHANGED notified
               ELSE IF res = "pending"
               THEN tpc' = [tpc EXCEPT ![p] = "parked"] /\ UNCHANGED <<opi, tgot, notified>>
               ELSE \* end of stream
                    tpc' = [tpc EXCEPT ![p] = ""] /\ opi' = [opi EXCEPT ![p] = @ + 1] /\ UNCHANGED <<tgot, notified>>

\* asleep in a polling loop: whoever takes a scheduler step ends everybody else's "nobody has moved since I fell asleep"
Sleeping(p) == pc[p] \in {"SL1", "SL2"}
SleptAfter(p) == slept' = [q \in Procs |-> IF q = p THEN pc'[p] \in {"SL1", "SL2"} ELSE FALSE]
MCCall(p)   == MCCall0(p) /\ SleptAfter(p)
MCPoll(p)   == MCPoll0(p) /\ SleptAfter(p)
MCUnpark(p) == MCUnpark0(p) /\ SleptAfter(p)
MCOp(p)     == MCOp0(p) /\ SleptAfter(p)
MCRet(p)    == MCRet0(p) /\ UNCHANGED slept       \* not a scheduler step: it happens within the thread's last step
MCSchedStep(p) == MCCall(p) \/ MCPoll(p) \/ MCUnpark(p) \/ MCOp(p)
OthersCanRun(p) == \E q \in Procs \ {p} : ENABLED MCSchedStep(q)
\* the sleep is over once another thread has taken a step since, or when nobody else can run (the timer fires)
MCSlept(p) == /\ Sleeping(p) /\ (~slept[p] \/ ~OthersCanRun(p))
              /\ CloseSlept(p) /\ UNCHANGED <<opi, tpc, tgot>> /\ SleptAfter(p)

MCNext == \E p \in Procs : MCCall(p) \/ MCPoll(p) \/ MCUnpark(p) \/ MCOp(p) \/ MCSlept(p) \/ MCRet(p)

-----------------------------------------------------------------------------
Driving(p) == HasOp(p) /\ CurOp(p).op = "drive"
Asleep(p) == Driving(p) /\ tpc[p] = "parked" /\ ~notified[p]
\* every thread is through with its script or is a task asleep
Quiescent == \A p \in Procs : (~HasOp(p) /\ pc[p] = "idle") \/ Asleep(p)
OpDone(o) == \E p \in Procs : \E i \in 1..Len(Script[p + 1]) : Script[p + 1][i].op = o /\ i < opi[p] /\ (i + 1 < opi[p] \/ pc[p] = "idle")
Cancelled == OpDone("cancel") \/ \E p \in Procs : \E i \in 1..Len(Script[p + 1]) : Script[p + 1][i].op = "close" /\ i < opi[p]

PollBusy(s) == \E p \in Procs : pc[p] # "idle" /\ reg[p].op \in {"poll", "poll2", "drop"} /\ reg[p].sid = s
Stream(s) == got[s] \o Q(s)                 \* what listener s has yielded and what is waiting for it
Producer(v) == v \div 10

\* C03 / C10 / C17, delivery: nothing twice, one producer's events in that producer's order, nothing from before the listener's creation,
\* and -- once everything is at rest -- everything sent while the listener existed
InvNoDuplicates == \A s \in Ids : (life[s] = "live" /\ ~PollBusy(s)) =>
                       \A i, j \in 1..Len(Stream(s)) : i < j => Stream(s)[i] # Stream(s)[j]
InvProducerOrder == \A s \in Ids : (life[s] = "live" /\ ~PollBusy(s)) =>
                       \A i, j \in 1..Len(Stream(s)) : (i < j /\ Producer(Stream(s)[i]) = Producer(Stream(s)[j])) => Stream(s)[i] < Stream(s)[j]
InvNothingOld == \A s \in Ids : /\ Elems(got[s]) \cap old[s] = {}
                                /\ (life[s] = "live" /\ ~PollBusy(s)) => Elems(Q(s)) \cap old[s] = {}
InvAllDelivered == Quiescent => \A s \in Ids : life[s] = "live" => owed[s] \subseteq Elems(Stream(s))
\* C04 (safety form): no task sleeps while an event is waiting in its listener's ring (nobody having been cancelled)
InvNoLostWakeup == (Quiescent /\ ~Cancelled) => \A p \in Procs : Asleep(p) => Q(CurOp(p).s) = <<>>
\* C07: after cancel_all_streams completed no task is left asleep
InvCancelEnds == (Quiescent /\ Cancelled) => \A p \in Procs : ~Asleep(p)

\* C06: when close has returned every event accepted before it was called has been yielded to every listener entitled to it, no listener
\* is left, the channel is not open
InvCloseWaits == \A p \in Procs : reg[p].res = "closed" =>
                     (/\ reg[p].left = 0 /\ reg[p].run = 0
                      /\ \A s \in Ids : (reg[p].acc \cap owed[s]) \subseteq Elems(got[s]))
InvClosedAfterwards == \A p \in Procs : reg[p].res = "closed" => ~reg[p].open

\* (C10) state constraint selecting the sequential histories: no send is in progress while a listener is being created / dropped
Sequential == ~(Churning /\ \E p \in Procs : reg[p].op = "send" /\ pc[p] # "idle")
=============================================================================
