---------------------------- MODULE Trace_AbsUni ----------------------------
(***************************************************************************)
(* L1 (abstract) specification of a Uni channel, in the form of a trace     *)
(* specification: the API-level history recorded from the real channel --   *)
(* sends through every entry point, reservations, polls of the streams,     *)
(* payload releases, cancellation, the quiescent end state -- must be a     *)
(* behaviour of                                                             *)
(*   - one atomic bounded FIFO queue (LinQueue) whose capacity is taken by  *)
(*     queued events, reserved slots, sends in progress and (zero-copy      *)
(*     channels) payload handles not yet released                (C02, C16) *)
(*   - in which every accepted event is delivered exactly once and a        *)
(*     rejected one never, the rejected setter un-invoked             (C01) *)
(*   - whose streams, when driven by an executor, are never left parked     *)
(*     while an accepted event is deliverable                         (C04) *)
(*   - whose cancelled streams end once nothing is buffered           (C07) *)
(*   - whose reserved slots deliver what was written / vanish         (C08) *)
(*   - whose payloads are destroyed exactly once                      (C05) *)
(*   - where other operations complete while a setter is suspended    (C20) *)
(* L2 events (atomic operations) are ignored here.                          *)
(***************************************************************************)
EXTENDS Integers, Sequences, FiniteSets, TraceBase

CONSTANTS N,           \* BUFFER_SIZE
          Procs,       \* logical threads
          RelaxEmpty,  \* tolerate the recorded finding KF-C02-spurious-empty
          HeldTakeCap, \* TRUE for the zero-copy channels: a delivered payload occupies its slot until released
          Checks       \* names of the invariants to be judged (each property's check selects its own)

VARIABLES cands, pend,      \* LinQueue monitor
          cur,              \* per thread: the queue operation in progress ("none" | "enq" | "deq")
          curv,             \* per thread: the value being sent
          resv, held,       \* reserved-and-unresolved slots / delivered payloads still held
          accS, delS, rejS, \* values of accepted sends / delivered values / rejected sends (sequences, in return order)
          parked,           \* per thread: parked inside a `drive`
          cancelled,        \* cancel_all_streams was called
          frozen,           \* threads suspended for ever inside an async setter
          tm                \* timing ghost: [accC, accR: call / return lines of the accepted sends; call: per thread, line of the
                            \*  call in progress; poll: per thread, <<call, ret>> lines of its last poll]

vars == <<cands, pend, cur, curv, resv, held, accS, delS, rejS, parked, cancelled, frozen, tm>>
tvars == <<vars, l, bad>>

LQ == INSTANCE LinQueue WITH LqThreads <- Procs, LqCap <- N, LqRelaxEmpty <- RelaxEmpty, LqMode <- "fifo"

NoCur == [p \in Procs |-> "none"]
Extra == resv + (IF HeldTakeCap THEN held ELSE 0)

Tm0 == [accC |-> <<>>, accR |-> <<>>, call |-> [p \in Procs |-> 0], poll |-> [p \in Procs |-> <<0, 0>>],
        live |-> -1,   \* streams alive (set from the reset event; -1: unknown)
        churn |-> 0]   \* create / drop_stream calls in progress
Init0 == /\ cands = LQ!LqInit0 /\ pend = LQ!LqNoPend /\ cur = NoCur /\ curv = [p \in Procs |-> 0]
         /\ resv = 0 /\ held = 0 /\ accS = <<>> /\ delS = <<>> /\ rejS = <<>>
         /\ parked = [p \in Procs |-> FALSE] /\ cancelled = FALSE /\ frozen = {}
         /\ tm = Tm0
TraceInit == Init0 /\ TBInit

TReset == /\ Ev.k = "reset"
          /\ cands' = LQ!LqInit0 /\ pend' = LQ!LqNoPend /\ cur' = NoCur /\ curv' = [p \in Procs |-> 0]
          /\ resv' = 0 /\ held' = 0 /\ accS' = <<>> /\ delS' = <<>> /\ rejS' = <<>>
          /\ parked' = [p \in Procs |-> FALSE] /\ cancelled' = FALSE /\ frozen' = {}
          /\ tm' = [Tm0 EXCEPT !.live = IF "streams" \in DOMAIN Ev.x THEN Ev.x.streams ELSE -1]

SendOps == {"send", "send_with", "send_async", "send_reserved"}
Count(s, v) == Cardinality({i \in 1..Len(s) : s[i] = v})
Range(s) == {s[i] : i \in 1..Len(s)}

TCall == /\ Ev.k = "call" /\ ~IsNopCall
         /\ tm' = IF Ev.x.op \in SendOps \cup {"poll", "pending", "close"} THEN [tm EXCEPT !.call[P] = l]
                  ELSE IF Ev.x.op \in {"create", "drop_stream"} THEN [tm EXCEPT !.churn = @ + 1] ELSE tm
         /\ IF Ev.x.op \in SendOps
            THEN /\ cands' = LQ!LqCall(cands, pend, P, [op |-> "enq", v |-> Ev.x.v], Extra)
                 /\ pend' = [pend EXCEPT ![P] = [op |-> "enq", v |-> Ev.x.v]]
                 /\ cur' = [cur EXCEPT ![P] = IF Ev.x.op = "send_reserved" THEN "pub" ELSE "enq"]
                 /\ curv' = [curv EXCEPT ![P] = Ev.x.v]
                 /\ UNCHANGED <<resv, held, accS, delS, rejS, parked, cancelled, frozen>>
            ELSE IF Ev.x.op = "poll"
            THEN /\ cands' = LQ!LqCall(cands, pend, P, [op |-> "deq", v |-> 0], Extra)
                 /\ pend' = [pend EXCEPT ![P] = [op |-> "deq", v |-> 0]]
                 /\ cur' = [cur EXCEPT ![P] = "deq"]
                 /\ UNCHANGED <<curv, resv, held, accS, delS, rejS, parked, cancelled, frozen>>
            ELSE IF Ev.x.op = "cancel_all"
            THEN /\ cancelled' = TRUE
                 /\ UNCHANGED <<cands, pend, cur, curv, resv, held, accS, delS, rejS, parked, frozen>>
            ELSE UNCHANGED <<cands, pend, cur, curv, resv, held, accS, delS, rejS, parked, cancelled, frozen>>

TRetSend == /\ cur[P] \in {"enq", "pub"}
            /\ cands' = IF Ev.x.ok THEN LQ!LqRet(cands, pend, P, [ok |-> TRUE, v |-> 0], IF cur[P] = "pub" THEN Extra - 1 ELSE Extra)
                        ELSE IF cur[P] = "pub" THEN LQ!LqRetCancel(cands, pend, P, Extra)
                        ELSE LQ!LqRet(cands, pend, P, [ok |-> FALSE, v |-> 0], Extra)
            /\ pend' = [pend EXCEPT ![P] = LQ!NoOp]
            /\ cur' = [cur EXCEPT ![P] = "none"]
            /\ resv' = IF cur[P] = "pub" /\ Ev.x.ok THEN resv - 1 ELSE resv
            /\ accS' = IF Ev.x.ok THEN Append(accS, curv[P]) ELSE accS
            /\ rejS' = IF ~Ev.x.ok /\ cur[P] = "enq" THEN Append(rejS, curv[P]) ELSE rejS
            /\ tm' = IF Ev.x.ok THEN [tm EXCEPT !.accC = Append(@, tm.call[P]), !.accR = Append(@, l)] ELSE tm
            /\ UNCHANGED <<curv, held, delS, parked, cancelled, frozen>>

TRetPoll == /\ cur[P] = "deq"
            /\ LET got == Ev.x.r = "item" IN
               /\ cands' = LQ!LqRet(cands, pend, P, [ok |-> got, v |-> IF got THEN Ev.x.v ELSE 0],
                                     IF got /\ Ev.x.h >= 0 THEN Extra + (IF HeldTakeCap THEN 1 ELSE 0) ELSE Extra)
               /\ delS' = IF got THEN Append(delS, Ev.x.v) ELSE delS
               /\ held' = IF got /\ Ev.x.h >= 0 THEN held + 1 ELSE held
            /\ pend' = [pend EXCEPT ![P] = LQ!NoOp]
            /\ cur' = [cur EXCEPT ![P] = "none"]
            /\ tm' = [tm EXCEPT !.poll[P] = <<tm.call[P], l>>]
            /\ UNCHANGED <<curv, resv, accS, rejS, parked, cancelled, frozen>>

TRetOther ==
    /\ cur[P] = "none"
    /\ tm' = IF Ev.fn = "create" THEN [tm EXCEPT !.churn = @ - 1, !.live = IF @ < 0 THEN @ ELSE @ + Len(Ev.x.ids)]
             ELSE IF Ev.fn = "drop_stream" THEN [tm EXCEPT !.churn = @ - 1, !.live = IF @ < 0 \/ ~Ev.x.ok THEN @ ELSE @ - 1]
             ELSE tm
    /\ IF Ev.fn = "reserve" /\ Ev.x.ok
       THEN /\ resv' = resv + 1
            /\ cands' = LQ!LqClose(cands, pend, Extra + 1)
            /\ UNCHANGED <<pend, cur, curv, held, accS, delS, rejS, parked, cancelled, frozen>>
       ELSE IF Ev.fn = "cancel_reserved" /\ Ev.x.ok
       THEN /\ resv' = resv - 1
            /\ UNCHANGED <<cands, pend, cur, curv, held, accS, delS, rejS, parked, cancelled, frozen>>
       ELSE IF Ev.fn = "release" /\ Ev.x.ok
       THEN /\ held' = held - 1
            /\ UNCHANGED <<cands, pend, cur, curv, resv, accS, delS, rejS, parked, cancelled, frozen>>
       ELSE IF Ev.fn = "release_all"
       THEN /\ held' = held - Ev.x.v
            /\ UNCHANGED <<cands, pend, cur, curv, resv, accS, delS, rejS, parked, cancelled, frozen>>
       ELSE UNCHANGED <<cands, pend, cur, curv, resv, held, accS, delS, rejS, parked, cancelled, frozen>>

TRet == Ev.k = "ret" /\ ~IsNopRet /\ (TRetSend \/ TRetPoll \/ TRetOther)

TNote == \/ /\ Ev.k = "park"
            /\ parked' = [parked EXCEPT ![P] = TRUE]
            /\ UNCHANGED <<cands, pend, cur, curv, resv, held, accS, delS, rejS, cancelled, frozen, tm>>
         \/ /\ Ev.k = "unpark"
            /\ parked' = [parked EXCEPT ![P] = FALSE]
            /\ UNCHANGED <<cands, pend, cur, curv, resv, held, accS, delS, rejS, cancelled, frozen, tm>>
         \/ /\ Ev.k = "suspended"
            /\ frozen' = frozen \cup {P}
            /\ UNCHANGED <<cands, pend, cur, curv, resv, held, accS, delS, rejS, parked, cancelled, tm>>
         \/ /\ Ev.k \in {"op", "wake", "panic", "slept"}
            /\ UNCHANGED vars

TFinal == Ev.k = "final" /\ UNCHANGED vars

\* ---------------------------------------------------------------------------------------------
\* verdicts

\* (state) every value delivered so far was accepted, or is being sent right now, at least as many times (C01)
SendingNow(v) == Cardinality({p \in Procs : cur[p] \in {"enq", "pub"} /\ curv[p] = v})
InvNoExcess == \A v \in Range(delS) : Count(delS, v) <= Count(accS, v) + SendingNow(v)
InvLinearizable == cands # {}

On(name) == name \in Checks
BadOf == IF On("InvDeliveredAtMostOnce") /\ ~InvNoExcess THEN "InvDeliveredAtMostOnce"
         ELSE IF On("InvLinearizable") /\ ~InvLinearizable THEN "InvLinearizable"
         ELSE ""

\* (event) verdicts that need the event itself
SeqSum(s) == Len(s)
LeftAll(x) == IF Len(x.left) = 0 THEN <<>> ELSE x.left[1].vs
Quiet == \A p \in Procs : cur[p] = "none" \/ p \in frozen
ParkedSome == \E p \in Procs : parked[p]
Undelivered(x) == {v \in Range(accS) : Count(accS, v) > Count(delS, v)}
\* a lost wake-up is "racing" when some stranded event was being sent while a now-parked task made its last poll (once an
\* event is stranded that way, the queue stays longer than MAX_STREAMS and later sends legitimately assume the streams are awake);
\* otherwise every stranded event was sent entirely after the tasks had gone to sleep and still woke nobody
Overlaps(i, p) == tm.accC[i] < tm.poll[p][2] /\ tm.accR[i] > tm.poll[p][1]
Racing == \E i \in 1..Len(accS) : (accS[i] \in Undelivered(0)) /\ \E p \in Procs : parked[p] /\ Overlaps(i, p)

FinalBad(x) ==
    IF x.hard THEN (IF On("InvNoStall") THEN (IF frozen # {} THEN "InvNoStallWhileSuspended" ELSE "InvNoStall") ELSE "")
    ELSE IF On("InvNoUseAfterFree") /\ Len(x.anomalies) > 0 THEN "InvNoUseAfterFree"
    ELSE IF On("InvDestroyedAtMostOnce") /\ (\E i \in 1..Len(x.drops) : x.drops[i][2] > 1) THEN "InvDestroyedAtMostOnce"
    \* "exactly once as soon as it has been delivered and every handle to it released": everything was consumed (by the streams or the
    \* final drain), nothing is held any more, so every payload ever created must already be destroyed -- before the channel is torn down
    ELSE IF On("InvDestroyedExactlyOnce") /\ x.tracked /\ x.drained /\ x.held = 0 /\ Quiet
            /\ (\E i \in 1..Len(x.drops_at_quiescence) : x.drops_at_quiescence[i][2] # 1) THEN "InvDestroyedExactlyOnce"
    ELSE IF On("InvNoLossNoInvention") /\ Quiet /\ ~x.frozen /\ x.drained
            /\ (\E v \in Range(accS) \cup Range(LeftAll(x)) : Count(accS, v) # Count(delS, v) + Count(LeftAll(x), v)) THEN "InvNoLossNoInvention"
    ELSE IF On("InvNoLostWakeup") /\ Quiet /\ ParkedSome /\ ~cancelled /\ Undelivered(x) # {} THEN (IF Racing THEN "InvNoLostWakeupRacing" ELSE "InvNoLostWakeup")
    ELSE IF On("InvCancelEndsStreams") /\ cancelled /\ Quiet /\ ParkedSome THEN "InvCancelEndsStreams"
    ELSE ""

OthersIdle == \A p \in Procs \ {P} : cur[p] = "none"
EvBadU == IF On("InvRunningCount") /\ Ev.k = "ret" /\ Ev.fn = "running" /\ tm.churn = 0 /\ tm.live >= 0 /\ Ev.x.v # tm.live THEN "InvRunningCount"
          ELSE IF On("InvPendingCount") /\ Ev.k = "ret" /\ Ev.fn = "pending" /\ OthersIdle /\ l = tm.call[P] + 1 /\ cands # {} /\ (\A c \in cands : Len(c.q) # Ev.x.v) THEN "InvPendingCount"
          ELSE IF On("InvRejectedSetterUninvoked") /\ Ev.k = "ret" /\ Ev.fn \in {"send_with", "send_async"} /\ ~Ev.x.ok /\ Ev.x.inv /\ (Ev.fn = "send_with" \/ Ev.x.done)
          THEN "InvRejectedSetterUninvoked"
          \* graceful close (unbounded timeout) returns only after every event accepted before the call was yielded by some stream, with every
          \* stream ended and dropped and the channel no longer open (C06)
          ELSE IF On("InvCloseWaits") /\ Ev.k = "ret" /\ Ev.fn = "close"
                  /\ (\E i \in 1..Len(accS) : tm.accR[i] < tm.call[P] /\ Count(delS, accS[i]) < Count(accS, accS[i])) THEN "InvCloseWaitsForBufferedEvents"
          ELSE IF On("InvClosedAfterwards") /\ Ev.k = "ret" /\ Ev.fn = "close" /\ (Ev.x.v # 0 \/ Ev.x.running # 0 \/ Ev.x.open) THEN "InvClosedAfterwards"
          ELSE IF Ev.k = "final" THEN FinalBad(Ev.x)
          ELSE IF On("NoPanic") THEN EvBad ELSE ""

TraceNext == /\ l <= Len(Rec)
             /\ l' = l + 1
             /\ IF Skipping
                THEN UNCHANGED <<vars, bad>>
                ELSE /\ (((IsNopCall \/ IsNopRet) /\ UNCHANGED vars) \/ TReset \/ TCall \/ TRet \/ TNote \/ TFinal)
                     /\ bad' = Worst(EvBadU, BadOf')
                     /\ NoteBad(bad')

TraceSpec == TraceInit /\ [][TraceNext]_tvars
=============================================================================
