--------------------------- MODULE Trace_LinQueue ---------------------------
(***************************************************************************)
(* L1-only trace validation: the call / return history recorded from any    *)
(* queue-like container of the real crate (rings, non-blocking queues, pool *)
(* allocators seen as a queue of free ids, Uni channels) must be explainable*)
(* by an atomic bounded FIFO queue (LinQueue).  Ignores every L2 event, so  *)
(* it keeps judging the code when the L2 specification no longer fits.      *)
(***************************************************************************)
EXTENDS Integers, Sequences, FiniteSets, TraceBase

CONSTANTS N, Procs, RelaxEmpty, Prefill, Mode

VARIABLES cands, pend, cur
vars == <<cands, pend, cur>>
tvars == <<vars, l, bad>>

LQ == INSTANCE LinQueue WITH LqThreads <- Procs, LqCap <- N, LqRelaxEmpty <- RelaxEmpty, LqMode <- Mode

Cands0 == IF Prefill THEN {[q |-> [i \in 1..N |-> i - 1], done |-> [t \in Procs |-> LQ!NotYet]]} ELSE LQ!LqInit0
NoCur == [p \in Procs |-> "none"]

TraceInit == cands = Cands0 /\ pend = LQ!LqNoPend /\ cur = NoCur /\ TBInit

OpName(x) == IF x \in {"alloc", "pop", "dequeue", "poll"} THEN "deq"
             ELSE IF x \in {"dealloc_id", "dealloc_ref", "dealloc_last", "push", "enqueue", "send", "send_with"} THEN "enq" ELSE x

TReset == Ev.k = "reset" /\ cands' = Cands0 /\ pend' = LQ!LqNoPend /\ cur' = NoCur

TCall == /\ Ev.k = "call" /\ ~IsNopCall
         /\ LET o == OpName(Ev.x.op) IN
            IF o \in {"enq", "deq"}
            THEN /\ cands' = LQ!LqCall(cands, pend, P, [op |-> o, v |-> Ev.x.v], 0)
                 /\ pend' = [pend EXCEPT ![P] = [op |-> o, v |-> Ev.x.v]]
                 /\ cur' = [cur EXCEPT ![P] = o]
            ELSE UNCHANGED vars

TRet == /\ Ev.k = "ret" /\ ~IsNopRet
        /\ IF cur[P] = "enq"
           THEN /\ cands' = LQ!LqRet(cands, pend, P, [ok |-> Ev.x.ok, v |-> 0], 0)
                /\ pend' = [pend EXCEPT ![P] = LQ!NoOp]
                /\ cur' = [cur EXCEPT ![P] = "none"]
           ELSE IF cur[P] = "deq"
           THEN /\ cands' = LQ!LqRet(cands, pend, P, [ok |-> Ev.x.ok, v |-> IF Ev.x.ok THEN Ev.x.v ELSE 0], 0)
                /\ pend' = [pend EXCEPT ![P] = LQ!NoOp]
                /\ cur' = [cur EXCEPT ![P] = "none"]
           ELSE UNCHANGED vars

\* a thread that panicked never returns: its operation stays pending
Stutter == UNCHANGED vars
TOther == Ev.k \notin {"reset", "call", "ret", "final"} /\ UNCHANGED vars

AllIdle == \A p \in Procs : cur[p] = "none"
TFinal == /\ Ev.k = "final"
          /\ UNCHANGED <<pend, cur>>
          /\ cands' = IF AllIdle /\ ~Ev.x.hard THEN {c \in cands : LQ!LqAgrees({c}, SeqOf(Ev.x.drained))} ELSE cands

BadOf == IF cands = {} THEN "InvLinearizable" ELSE ""

TraceNext == /\ l <= Len(Rec)
             /\ l' = l + 1
             /\ IF Skipping
                THEN UNCHANGED <<vars, bad>>
                ELSE /\ (((IsNopCall \/ IsNopRet) /\ Stutter) \/ TReset \/ TCall \/ TRet \/ TOther \/ TFinal)
                     /\ bad' = Worst(EvBad, BadOf')
                     /\ NoteBad(bad')

TraceSpec == TraceInit /\ [][TraceNext]_tvars
=============================================================================
