--------------------------- MODULE Trace_LinQueue ---------------------------
(***************************************************************************)
(* L1-only trace validation: the call / return history recorded from any    *)
(* queue-like container of the real crate (rings, non-blocking queues, pool *)
(* allocators seen as a queue of free ids, Uni channels) must be explainable*)
(* by an atomic bounded FIFO queue (LinQueue).  Ignores every L2 event, so  *)
(* it keeps judging the code when the L2 specification no longer fits.      *)
(***************************************************************************)
EXTENDS Integers, Sequences, FiniteSets, TraceBase

CONSTANTS N, Procs, RelaxEmpty, Prefill, Mode

VARIABLES cands, pend, cur, resv   \* resv: reserved-and-unresolved slots (they take capacity)
vars == <<cands, pend, cur, resv>>
tvars == <<vars, l, bad>>

LQ == INSTANCE LinQueue WITH LqThreads <- Procs, LqCap <- N, LqRelaxEmpty <- RelaxEmpty, LqMode <- Mode

Cands0 == IF Prefill THEN {[q |-> [i \in 1..N |-> i - 1], done |-> [t \in Procs |-> LQ!NotYet]]} ELSE LQ!LqInit0
NoCur == [p \in Procs |-> "none"]

TraceInit == cands = Cands0 /\ pend = LQ!LqNoPend /\ cur = NoCur /\ resv = 0 /\ TBInit

OpName(x) == IF x \in {"alloc", "alloc_with", "pop", "dequeue", "poll"} THEN "deq"
             ELSE IF x \in {"dealloc_id", "dealloc_ref", "dealloc_last", "push", "enqueue", "send", "send_with", "pub_idx"} THEN "enq" ELSE x

TReset == Ev.k = "reset" /\ cands' = Cands0 /\ pend' = LQ!LqNoPend /\ cur' = NoCur /\ resv' = 0

TCall == /\ Ev.k = "call" /\ ~IsNopCall
         /\ LET o == OpName(Ev.x.op) IN
            IF o \in {"enq", "deq"}
            THEN /\ cands' = LQ!LqCall(cands, pend, P, [op |-> o, v |-> Ev.x.v], resv)
                 /\ pend' = [pend EXCEPT ![P] = [op |-> o, v |-> Ev.x.v]]
                 /\ cur' = [cur EXCEPT ![P] = IF Ev.x.op = "pub_idx" THEN "pub" ELSE o]
                 /\ UNCHANGED resv
            ELSE UNCHANGED vars

TRet == /\ Ev.k = "ret" /\ ~IsNopRet
        /\ IF cur[P] = "enq"
           THEN /\ cands' = LQ!LqRet(cands, pend, P, [ok |-> Ev.x.ok, v |-> 0], resv)
                /\ pend' = [pend EXCEPT ![P] = LQ!NoOp]
                /\ cur' = [cur EXCEPT ![P] = "none"]
                /\ UNCHANGED resv
           ELSE IF cur[P] = "pub"
           THEN /\ cands' = IF Ev.x.ok THEN LQ!LqRet(cands, pend, P, [ok |-> TRUE, v |-> 0], resv) ELSE LQ!LqRetCancel(cands, pend, P, resv)
                /\ pend' = [pend EXCEPT ![P] = LQ!NoOp]
                /\ cur' = [cur EXCEPT ![P] = "none"]
                /\ resv' = IF Ev.x.ok THEN resv - 1 ELSE resv
           ELSE IF cur[P] = "deq"
           THEN /\ cands' = LQ!LqRet(cands, pend, P, [ok |-> Ev.x.ok, v |-> IF Ev.x.ok THEN Ev.x.v ELSE 0], resv)
                /\ pend' = [pend EXCEPT ![P] = LQ!NoOp]
                /\ cur' = [cur EXCEPT ![P] = "none"]
                /\ UNCHANGED resv
           ELSE IF Ev.fn = "reserve" /\ Ev.x.ok
           THEN /\ resv' = resv + 1
                /\ cands' = LQ!LqClose(cands, pend, resv + 1)
                /\ UNCHANGED <<pend, cur>>
           ELSE IF Ev.fn = "unleak_idx" /\ Ev.x.ok
           THEN /\ resv' = resv - 1
                /\ UNCHANGED <<cands, pend, cur>>
           ELSE UNCHANGED vars

\* a thread that panicked never returns: its operation stays pending
Stutter == UNCHANGED vars
TOther == Ev.k \notin {"reset", "call", "ret", "final"} /\ UNCHANGED vars

AllIdle == \A p \in Procs : cur[p] = "none"
TFinal == /\ Ev.k = "final"
          /\ UNCHANGED <<pend, cur, resv>>
          /\ cands' = IF AllIdle /\ ~Ev.x.hard THEN {c \in cands : LQ!LqAgrees({c}, SeqOf(Ev.x.drained))} ELSE cands

BadOf == IF cands = {} THEN "InvLinearizable" ELSE ""

TraceNext == /\ l <= Len(Rec)
             /\ l' = l + 1
             /\ IF Skipping
                THEN UNCHANGED <<vars, bad>>
                ELSE /\ (((IsNopCall \/ IsNopRet) /\ Stutter) \/ TReset \/ TCall \/ TRet \/ TOther \/ TFinal)
                     /\ bad' = Worst(EvBad, BadOf')
                     /\ NoteBad(bad')

TraceSpec == TraceInit /\ [][TraceNext]_tvars
=============================================================================
