------------------------------- MODULE IncAvg -------------------------------
(***************************************************************************)
(* L2 specification of `AtomicIncrementalAverage64`                         *)
(* (/repo/src/incremental_averages.rs): one 64-bit word holding the counter *)
(* and the running average; `inc` = load, compute, compare_exchange, retry  *)
(* with the reloaded value; `probe` = one load.  The average is carried     *)
(* symbolically as the sequence of measurements folded so far (TLC has no   *)
(* floats; the numeric value is re-computed by the harness with the same    *)
(* f32 formula and compared bit for bit).                                   *)
(***************************************************************************)
EXTENDS Integers, Sequences, FiniteSets, TLC

CONSTANTS Procs

VARIABLES joined,    \* <<count, folded measurements>>
          pc, reg, done   \* done: measurements whose `inc` returned / probes answered (ghost)

vars == <<joined, pc, reg, done>>
NoReg == [m |-> 0, cur |-> <<0, <<>>>>, res |-> <<0, <<>>>>]

Init == joined = <<0, <<>>>> /\ pc = [p \in Procs |-> "idle"] /\ reg = [p \in Procs |-> NoReg] /\ done = <<>>

CallInc(p, m) == /\ pc[p] = "idle" /\ pc' = [pc EXCEPT ![p] = "I1"] /\ reg' = [reg EXCEPT ![p].m = m] /\ UNCHANGED <<joined, done>>
IncLoad(p) == /\ pc[p] = "I1" /\ reg' = [reg EXCEPT ![p].cur = joined] /\ pc' = [pc EXCEPT ![p] = "I2"] /\ UNCHANGED <<joined, done>>
IncCasOk(p) == /\ pc[p] = "I2" /\ joined = reg[p].cur
               /\ joined' = <<reg[p].cur[1] + 1, Append(reg[p].cur[2], reg[p].m)>>
               /\ pc' = [pc EXCEPT ![p] = "ret"] /\ UNCHANGED <<reg, done>>
IncCasFail(p) == /\ pc[p] = "I2" /\ joined # reg[p].cur
                 /\ reg' = [reg EXCEPT ![p].cur = joined]        \* retry with the reloaded value
                 /\ UNCHANGED <<joined, pc, done>>
CallProbe(p) == /\ pc[p] = "idle" /\ pc' = [pc EXCEPT ![p] = "P1"] /\ UNCHANGED <<joined, reg, done>>
ProbeLoad(p) == /\ pc[p] = "P1" /\ reg' = [reg EXCEPT ![p].res = joined] /\ pc' = [pc EXCEPT ![p] = "pret"] /\ UNCHANGED <<joined, done>>
Ret(p) == /\ pc[p] \in {"ret", "pret"}
          /\ done' = IF pc[p] = "ret" THEN Append(done, reg[p].m) ELSE done
          /\ pc' = [pc EXCEPT ![p] = "idle"] /\ UNCHANGED <<joined, reg>>
Step(p) == IncLoad(p) \/ IncCasOk(p) \/ IncCasFail(p) \/ ProbeLoad(p) \/ Ret(p)

\* C19: no update lost, none counted twice: the count is the length of the fold, and every returned inc is in it
InvCount == joined[1] = Len(joined[2])
InFlight == {p \in Procs : pc[p] \in {"I1", "I2"}}
BagLe(a, b) == \A v \in {a[i] : i \in 1..Len(a)} : Cardinality({i \in 1..Len(a) : a[i] = v}) <= Cardinality({i \in 1..Len(b) : b[i] = v})
InvNoLostUpdate == BagLe(done, joined[2]) /\ Len(joined[2]) <= Len(done) + Cardinality(InFlight) + Cardinality({p \in Procs : pc[p] = "ret"})
\* a probe answers a pair that belonged together: its count is the length of its fold
InvProbePair == \A p \in Procs : pc[p] = "pret" => reg[p].res[1] = Len(reg[p].res[2])
=============================================================================
