-------------------------- MODULE MC_RingFullSync --------------------------
EXTENDS RingFullSync

CONSTANT Script
VARIABLE opi
mcvars == <<vars, opi>>

E(v) == [op |-> "enq", v |-> v, i |-> 0]
D    == [op |-> "deq", v |-> 0, i |-> 0]
L    == [op |-> "len", v |-> 0, i |-> 0]

Script_2p2c == << <<E(11), E(12)>>, <<E(21), E(22)>>, <<D, D>>, <<D, D>> >>
Script_2p1c == << <<E(11), E(12)>>, <<E(21), E(22)>>, <<D, D>> >>
Script_1p2c == << <<E(11), E(12), E(13)>>, <<D, D>>, <<D>> >>
Script_len  == << <<E(11), E(12), E(13)>>, <<D, L, D>>, <<L, D>> >>

MCInit == Init /\ opi = [p \in Procs |-> 1]
MCCall(p) == /\ opi[p] <= Len(Script[p + 1])
             /\ Call(p, Script[p + 1][opi[p]])
             /\ opi' = [opi EXCEPT ![p] = @ + 1]
AllDone == \A p \in Procs : pc[p] = "idle" /\ opi[p] > Len(Script[p + 1])
MCNext == \/ \E p \in Procs : MCCall(p) \/ (Step(p) /\ UNCHANGED opi)
          \/ (AllDone /\ UNCHANGED mcvars)
=============================================================================
