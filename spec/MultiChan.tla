----------------------------- MODULE MultiChan -----------------------------
(***************************************************************************)
(* L2 (implementation-shaped) specification of the atomic Multi channels,   *)
(* Arc-based (Kind = "arc") and OgreArc-based (Kind = "ogre"), one action   *)
(* per scheduling point of the real code:                                   *)
(*   /repo/src/multi/channels/arc/atomic.rs   send / send_derived (fan-out  *)
(*        over the live-listener list), consume, drop_resources             *)
(*   /repo/src/multi/channels/ogre_arc/atomic.rs   the same over pooled     *)
(*        payloads: OgreArc::new (a slot id from the allocator's free list, *)
(*        references_count = 1), references += running_streams_count, one   *)
(*        raw copy per listed listener (the first `count` entries of the    *)
(*        list, holes skipped), the sender's own handle dropped at the end; *)
(*        every handle drop is references.fetch_sub(1), the one that finds  *)
(*        1 destroys the payload and returns the slot to the free list      *)
(*   /repo/src/ogre_std/ogre_alloc/{ogre_arc,ogre_array_pool_allocator}.rs  *)
(*   /repo/src/ogre_std/ogre_queues/atomic/atomic_move.rs   one AtomicMove  *)
(*        ring PER LISTENER (the enqueue / dequeue protocol of RingAtomic,  *)
(*        here indexed by the stream id)                                    *)
(*   /repo/src/streams_manager.rs   create_stream_id, report_stream_dropped,*)
(*        sync_vacant_and_used_streams (the in-place rebuild of the         *)
(*        live-listener list, entry by entry), wake_stream,                 *)
(*        keep_stream_running, register_stream_waker, cancel_all_streams    *)
(*   /repo/src/ogre_std/ogre_queues/full_sync/full_sync_move.rs   the queue *)
(*        of vacant stream ids (guard CAS / plain reads / guard store)      *)
(*   /repo/src/mutiny_stream.rs     poll_next, Drop                         *)
(*                                                                          *)
(* A scheduling point is a shimmed atomic operation or a verif::yield_point;*)
(* the code between two points is one step (the hook fires BEFORE the       *)
(* operation, so a step is: the operation + everything up to the next hook).*)
(*                                                                          *)
(*   send(v):  for i in 0..MaxS:  [y multi.used.read] id := used[i];           *)
(*                 id = MAX -> stop;                                        *)
(*                 enqueue a clone into ring id ([fa etail][ld head][cas    *)
(*                 tail]); len_after <= 2 -> wake_stream(id)                *)
(*   poll(s):  dequeue from ring s ([fa dhead][ld tail]([cas head] |        *)
(*             [cas dhead])); nothing -> [y keep.read]; FALSE -> dequeue    *)
(*             once more, nothing again -> end;                             *)
(*             TRUE -> [y waker.peek] registered -> Pending; else [cas      *)
(*             wlock] insert [st wlock] self-wake, Pending                   *)
(*   create:   [fa created][fa count][cas vguard][y][y: pop id][st vguard]  *)
(*             [y keep.set: keep[id] := TRUE] sync                          *)
(*   drop(s):  dequeue from ring s until empty; [cas wlock: waker[s]:=None] *)
(*             [st wlock][fa finished][fs count][cas vguard: push s]        *)
(*             [st vguard] sync                                             *)
(*   sync:     [cas slock: target := sorted live ids, MAX padded]           *)
(*             MaxS x [y used.write: used[k] := target[k]] [st slock]          *)
(*   cancel_all: for id in 0..MaxS: [y used.read][y keep.clear: keep[id] :=    *)
(*             FALSE] wake_stream(id)                                       *)
(*                                                                          *)
(* Properties (ghost variables record what each listener is entitled to):   *)
(*   C03  fixed listener set: every listener gets every accepted event      *)
(*        exactly once, each producer's events in order                     *)
(*   C04  no listener task sleeps on a non-empty ring                       *)
(*   C07  cancel_all_streams wakes every parked task                        *)
(*   C10  a listener created between sends gets nothing sent before it was  *)
(*        created (leftovers of an earlier holder of the id included)       *)
(*   C17  listener churn DURING a send (expected to fail: recorded finding) *)
(*   C05 / C14 (Kind = "ogre")  a payload is destroyed exactly when its     *)
(*        last handle goes, never while a copy sits in a listener's ring or *)
(*        is held; every event delivered to all is destroyed (no leak)      *)
(***************************************************************************)
EXTENDS Integers, Sequences, FiniteSets, TLC

CONSTANTS N,        \* BUFFER_SIZE of every listener's ring (power of 2)
          W,        \* counter modulus (multiple of N; 2^32 in the code)
          MaxS,        \* MAX_STREAMS
          Procs,    \* threads
          Kind      \* "arc" | "ogre"

MAX == 99                      \* the u32::MAX sentinel of the live-listener list
NoW == -1                      \* wakers[s] = None; otherwise the task (thread) whose waker was registered last
Ids == 0..MaxS-1

Add(x, k)  == (x + k) % W
Sub(x, y)  == (x - y + W) % W
Signed(d)  == IF d >= W \div 2 THEN d - W ELSE d
Idx(x)     == x % N

VARIABLES rh, rt, re, rdh, rbuf,                          \* per ring: head, tail, enqueuer_tail, dequeuer_head, slots
          used, count, vac, vlock, slock, created, finished,  \* streams manager
          waker, wlock, keep, notified,                   \* wakers, their lock, keep_streams_running; the tasks' sticky notification
          pc, reg,                                        \* per thread
          got, old, owed, done, life,                     \* ghost
          refs, dead, uaf, pl                             \* Kind = "ogre": references_count per event (by value), destroyed events, a handle used
                                                          \* after its event was destroyed, the free list's four counters

ring == <<rh, rt, re, rdh, rbuf>>
sm   == <<used, count, vac, vlock, slock, created, finished>>
wk   == <<waker, wlock, keep, notified>>
gh   == <<got, old, owed, done, life>>
og   == <<refs, dead, uaf, pl>>
mvars == <<ring, sm, wk, pc, reg, gh, og>>

NoTgt == [j \in Ids |-> MAX]
NoReg == [op |-> "none", v |-> 0, sid |-> 0, i |-> 0, slot |-> 0, lenb |-> 0, val |-> 0, res |-> "", rv |-> 0, tgt |-> NoTgt, k |-> 0, snap |-> {}, n |-> 0, hv |-> 0, ps |-> 0,
          t |-> 0, mx |-> 0, acc |-> {}, left |-> 0, run |-> 0, open |-> FALSE]

RECURSIVE SortedSeq(_)
SortedSeq(set) == IF set = {} THEN <<>> ELSE LET m == CHOOSE x \in set : \A y \in set : x <= y IN <<m>> \o SortedSeq(set \ {m})
ListOf(live) == LET l == SortedSeq(live) IN [i \in Ids |-> IF i + 1 <= Len(l) THEN l[i + 1] ELSE MAX]
Elems(s) == {s[i] : i \in 1..Len(s)}

\* `Initial`: ids of the listeners that exist from the start (created one after the other on a fresh channel: ids 0..n-1)
MInit(Initial) ==
    /\ rh = [r \in Ids |-> 0] /\ rt = [r \in Ids |-> 0] /\ re = [r \in Ids |-> 0] /\ rdh = [r \in Ids |-> 0]
    /\ rbuf = [r \in Ids |-> [i \in 0..N-1 |-> 0]]
    /\ used = ListOf(Initial) /\ count = Cardinality(Initial) /\ vac = SortedSeq(Ids \ Initial) /\ vlock = FALSE /\ slock = FALSE
    /\ created = Cardinality(Initial) /\ finished = 0
    /\ waker = [s \in Ids |-> NoW] /\ wlock = FALSE /\ keep = [s \in Ids |-> s \in Initial] /\ notified = [p \in Procs |-> FALSE]
    /\ pc = [p \in Procs |-> "idle"] /\ reg = [p \in Procs |-> NoReg]
    /\ got = [s \in Ids |-> <<>>] /\ old = [s \in Ids |-> {}] /\ owed = [s \in Ids |-> {}] /\ done = {}
    /\ life = [s \in Ids |-> IF s \in Initial THEN "live" ELSE "none"]
    /\ refs = <<>> /\ dead = {} /\ uaf = FALSE /\ pl = [dh |-> 0, h |-> 0, e |-> N, t |-> N]

\* (trace validation) a fresh channel with listeners `Initial`
ResetTo(Initial) ==
    /\ rh' = [r \in Ids |-> 0] /\ rt' = [r \in Ids |-> 0] /\ re' = [r \in Ids |-> 0] /\ rdh' = [r \in Ids |-> 0]
    /\ rbuf' = [r \in Ids |-> [i \in 0..N-1 |-> 0]]
    /\ used' = ListOf(Initial) /\ count' = Cardinality(Initial) /\ vac' = SortedSeq(Ids \ Initial) /\ vlock' = FALSE /\ slock' = FALSE
    /\ created' = Cardinality(Initial) /\ finished' = 0
    /\ waker' = [s \in Ids |-> NoW] /\ wlock' = FALSE /\ keep' = [s \in Ids |-> s \in Initial] /\ notified' = [p \in Procs |-> FALSE]
    /\ pc' = [p \in Procs |-> "idle"] /\ reg' = [p \in Procs |-> NoReg]
    /\ got' = [s \in Ids |-> <<>>] /\ old' = [s \in Ids |-> {}] /\ owed' = [s \in Ids |-> {}] /\ done' = {}
    /\ life' = [s \in Ids |-> IF s \in Initial THEN "live" ELSE "none"]
    /\ refs' = <<>> /\ dead' = {} /\ uaf' = FALSE /\ pl' = [dh |-> 0, h |-> 0, e |-> N, t |-> N]

Wake(s, nf) == IF waker[s] = NoW THEN nf ELSE [nf EXCEPT ![waker[s]] = TRUE]
\* the concrete content of ring r, oldest first
Q(r) == [i \in 1..Sub(rt[r], rh[r]) |-> rbuf[r][Idx(Add(rh[r], i - 1))]]

-----------------------------------------------------------------------------
\* calls (the harness records one `call` event; the thread then runs to its first scheduling point)

CallSend(p, v) ==
    /\ pc[p] = "idle"
    /\ pc' = [pc EXCEPT ![p] = IF Kind = "ogre" THEN "A1" ELSE "F0"]
    /\ reg' = [reg EXCEPT ![p] = [NoReg EXCEPT !.op = "send", !.v = v]]
    /\ owed' = [s \in Ids |-> IF life[s] = "live" THEN owed[s] \cup {v} ELSE owed[s]]
    /\ UNCHANGED <<ring, sm, wk, got, old, done, life, og>>

CallPoll(p, s) ==
    /\ pc[p] = "idle"
    /\ pc' = [pc EXCEPT ![p] = "D1"]
    /\ reg' = [reg EXCEPT ![p] = [NoReg EXCEPT !.op = "poll", !.sid = s]]
    /\ UNCHANGED <<ring, sm, wk, gh, og>>

CallCreate(p) ==
    /\ pc[p] = "idle"
    /\ pc' = [pc EXCEPT ![p] = "C1"]
    /\ reg' = [reg EXCEPT ![p] = [NoReg EXCEPT !.op = "create", !.snap = done]]
    /\ UNCHANGED <<ring, sm, wk, gh, og>>

CallDrop(p, s) ==
    /\ pc[p] = "idle"
    /\ pc' = [pc EXCEPT ![p] = "D1"]
    /\ reg' = [reg EXCEPT ![p] = [NoReg EXCEPT !.op = "drop", !.sid = s]]
    /\ life' = [life EXCEPT ![s] = "dropping"]
    /\ UNCHANGED <<ring, sm, wk, got, old, owed, done, og>>

CallCancel(p) ==
    /\ pc[p] = "idle"
    /\ pc' = [pc EXCEPT ![p] = "X1"]
    /\ reg' = [reg EXCEPT ![p] = [NoReg EXCEPT !.op = "cancel"]]
    /\ UNCHANGED <<ring, sm, wk, gh, og>>

-----------------------------------------------------------------------------
\* send_derived: the fan-out loop

\* where the sender goes after it is done with entry i
\* (Kind = "ogre": the loop is bounded by the count sampled before it; then the sender's own handle goes)
AfterEntry(p) == IF Kind = "ogre" THEN (IF reg[p].i + 1 < reg[p].n THEN "F0" ELSE "H1")
                 ELSE IF reg[p].i + 1 < MaxS THEN "F0" ELSE "cret"

FanRead(p) ==      \* [y multi.used.read] the entry is read after the yield
    /\ pc[p] = "F0"
    /\ LET id == used[reg[p].i] IN
       IF id = MAX
       THEN IF Kind = "ogre"        \* a hole: no copy for this entry, on to the next one
            THEN /\ pc' = [pc EXCEPT ![p] = AfterEntry(p)] /\ reg' = [reg EXCEPT ![p].i = @ + 1, ![p].res = "ok"]
            ELSE /\ pc' = [pc EXCEPT ![p] = "cret"] /\ reg' = [reg EXCEPT ![p].res = "ok"]
       ELSE /\ pc' = [pc EXCEPT ![p] = "E1"] /\ reg' = [reg EXCEPT ![p].sid = id, ![p].res = "ok"]
    /\ UNCHANGED <<ring, sm, wk, gh, og>>

EnqFA(p) ==        \* enqueuer_tail.fetch_add(1) of ring sid
    /\ pc[p] = "E1"
    /\ LET r == reg[p].sid IN
       /\ reg' = [reg EXCEPT ![p].slot = re[r]]
       /\ re' = [re EXCEPT ![r] = Add(@, 1)]
    /\ pc' = [pc EXCEPT ![p] = "E2"]
    /\ UNCHANGED <<rh, rt, rdh, rbuf, sm, wk, gh, og>>

EnqLoadHead(p) ==  \* head.load; room -> the clone is written into the slot
    /\ pc[p] = "E2"
    /\ LET r == reg[p].sid
           lb == Sub(reg[p].slot, rh[r]) IN
       IF lb < N
       THEN /\ reg' = [reg EXCEPT ![p].lenb = lb]
            /\ rbuf' = [rbuf EXCEPT ![r][Idx(reg[p].slot)] = reg[p].v]
            /\ pc' = [pc EXCEPT ![p] = "E5"]
       ELSE /\ reg' = [reg EXCEPT ![p].lenb = lb]
            /\ pc' = [pc EXCEPT ![p] = "E3"]
            /\ UNCHANGED rbuf
    /\ UNCHANGED <<rh, rt, re, rdh, sm, wk, gh, og>>

\* a full listener ring: the reservation is given back, the listener is woken, and the sender sleeps 500 ms and tries again
\* (outside the bound of C03 -- fewer than BUFFER_SIZE events outstanding; the scripts of the MC wrapper never get here: InvNeverFull)
EnqRecedeOk(p) ==
    /\ pc[p] = "E3"
    /\ LET r == reg[p].sid IN
       /\ re[r] = Add(reg[p].slot, 1)
       /\ re' = [re EXCEPT ![r] = reg[p].slot]
    /\ pc' = [pc EXCEPT ![p] = "full"]
    /\ UNCHANGED <<rh, rt, rdh, rbuf, sm, wk, reg, gh, og>>
EnqRecedeFail(p) ==
    /\ pc[p] = "E3"
    /\ re[reg[p].sid] # Add(reg[p].slot, 1)
    /\ pc' = [pc EXCEPT ![p] = "E2"]
    /\ UNCHANGED <<ring, sm, wk, reg, gh, og>>

EnqPublish(p) ==   \* tail CAS(slot -> slot+1); spins until it is our turn; len_after <= 2 -> wake_stream
    /\ pc[p] = "E5"
    /\ LET r == reg[p].sid IN
       /\ rt[r] = reg[p].slot
       /\ rt' = [rt EXCEPT ![r] = Add(@, 1)]
    /\ IF reg[p].lenb + 1 <= 2
       THEN pc' = [pc EXCEPT ![p] = "W1"] /\ UNCHANGED reg
       ELSE pc' = [pc EXCEPT ![p] = AfterEntry(p)] /\ reg' = [reg EXCEPT ![p].i = @ + 1]
    /\ UNCHANGED <<rh, re, rdh, rbuf, sm, wk, gh, og>>

\* wake_stream(sid) of a sender
WakePeek(p) ==     \* [y sm.wake.peek] the unsynchronised look at wakers[sid]
    /\ pc[p] = "W1"
    /\ IF waker[reg[p].sid] # NoW
       THEN /\ notified' = Wake(reg[p].sid, notified)
            /\ pc' = [pc EXCEPT ![p] = AfterEntry(p)] /\ reg' = [reg EXCEPT ![p].i = @ + 1]
       ELSE UNCHANGED <<notified, reg>> /\ pc' = [pc EXCEPT ![p] = "W2"]
    /\ UNCHANGED <<ring, sm, waker, wlock, keep, gh, og>>
WakeLock(p) ==     \* wakers_lock CAS; second look under the lock
    /\ pc[p] = "W2" /\ ~wlock
    /\ wlock' = TRUE
    /\ notified' = Wake(reg[p].sid, notified)
    /\ pc' = [pc EXCEPT ![p] = "W3"]
    /\ UNCHANGED <<ring, sm, waker, keep, reg, gh, og>>
WakeUnlock(p) ==   \* wakers_lock store(false); on to the next entry of the list
    /\ pc[p] = "W3"
    /\ wlock' = FALSE
    /\ pc' = [pc EXCEPT ![p] = AfterEntry(p)] /\ reg' = [reg EXCEPT ![p].i = @ + 1]
    /\ UNCHANGED <<ring, sm, waker, keep, notified, gh, og>>

-----------------------------------------------------------------------------
\* consume (poll_next, and the drain loop of drop_resources)

DeqFA(p) ==
    /\ pc[p] = "D1"
    /\ LET r == reg[p].sid IN
       /\ reg' = [reg EXCEPT ![p].slot = rdh[r]]
       /\ rdh' = [rdh EXCEPT ![r] = Add(@, 1)]
    /\ pc' = [pc EXCEPT ![p] = "D2"]
    /\ UNCHANGED <<rh, rt, re, rbuf, sm, wk, gh, og>>

DeqLoadTail(p) ==
    /\ pc[p] = "D2"
    /\ LET r == reg[p].sid
           lb == Signed(Sub(rt[r], reg[p].slot)) IN
       IF lb > 0
       THEN /\ reg' = [reg EXCEPT ![p].val = rbuf[r][Idx(reg[p].slot)]]
            /\ pc' = [pc EXCEPT ![p] = "D4"]
       ELSE /\ pc' = [pc EXCEPT ![p] = "D3"] /\ UNCHANGED reg
    /\ UNCHANGED <<ring, sm, wk, gh, og>>

DeqRecedeOk(p) ==  \* nothing there.  poll: on to keep_stream_running;  drop: the drain loop ends, report_stream_dropped begins
    /\ pc[p] = "D3"
    /\ LET r == reg[p].sid IN
       /\ rdh[r] = Add(reg[p].slot, 1)
       /\ rdh' = [rdh EXCEPT ![r] = reg[p].slot]
    /\ IF reg[p].op = "poll2"
       THEN pc' = [pc EXCEPT ![p] = "cret"] /\ reg' = [reg EXCEPT ![p].res = "end"]          \* nothing again after the end signal: end of stream
       ELSE pc' = [pc EXCEPT ![p] = IF reg[p].op = "drop" THEN "P1" ELSE "K1"] /\ UNCHANGED reg
    /\ UNCHANGED <<rh, rt, re, rbuf, sm, wk, gh, og>>
DeqRecedeFail(p) ==
    /\ pc[p] = "D3"
    /\ rdh[reg[p].sid] # Add(reg[p].slot, 1)
    /\ pc' = [pc EXCEPT ![p] = "D2"]
    /\ UNCHANGED <<ring, sm, wk, reg, gh, og>>

DeqRelease(p) ==   \* head CAS(slot -> slot+1).  poll: the item is the result;  drop: the leftover is discarded, look for the next one
    /\ pc[p] = "D4"
    /\ LET r == reg[p].sid IN
       /\ rh[r] = reg[p].slot
       /\ rh' = [rh EXCEPT ![r] = Add(@, 1)]
    /\ IF Kind = "ogre"           \* the handle taken out of the ring is dropped (poll: by the task, once it has looked at the item)
       THEN pc' = [pc EXCEPT ![p] = "H1"] /\ reg' = [reg EXCEPT ![p].hv = reg[p].val, ![p].rv = reg[p].val,
                                                                   ![p].res = IF reg[p].op = "drop" THEN @ ELSE "item"]
       ELSE IF reg[p].op = "drop"
       THEN pc' = [pc EXCEPT ![p] = "D1"] /\ UNCHANGED reg
       ELSE pc' = [pc EXCEPT ![p] = "cret"] /\ reg' = [reg EXCEPT ![p].res = "item", ![p].rv = reg[p].val]
    /\ UNCHANGED <<rt, re, rdh, rbuf, sm, wk, gh, og>>

\* the rest of poll_next after an empty consume
KeepRead(p) ==     \* [y sm.keep.read]; told to end -> consume once more before ending (an event may have come in since the empty consume)
    /\ pc[p] = "K1"
    /\ IF keep[reg[p].sid]
       THEN pc' = [pc EXCEPT ![p] = "R1"] /\ UNCHANGED reg
       ELSE pc' = [pc EXCEPT ![p] = "D1"] /\ reg' = [reg EXCEPT ![p].op = "poll2"]
    /\ UNCHANGED <<ring, sm, wk, gh, og>>
WakerPeek(p) ==    \* [y sm.waker.peek] this task's waker is already there (will_wake) -> Pending; none or another task's -> (re)register
    /\ pc[p] = "R1"
    /\ IF waker[reg[p].sid] = p
       THEN pc' = [pc EXCEPT ![p] = "cret"] /\ reg' = [reg EXCEPT ![p].res = "pending"]
       ELSE pc' = [pc EXCEPT ![p] = "R2"] /\ UNCHANGED reg
    /\ UNCHANGED <<ring, sm, wk, gh, og>>
WakerLock(p) ==    \* wakers_lock CAS; insert
    /\ pc[p] = "R2" /\ ~wlock
    /\ wlock' = TRUE /\ waker' = [waker EXCEPT ![reg[p].sid] = p]
    /\ pc' = [pc EXCEPT ![p] = "R3"]
    /\ UNCHANGED <<ring, sm, keep, notified, reg, gh, og>>
WakerUnlock(p) ==  \* wakers_lock store(false); the inserted waker is woken once (the self-wake)
    /\ pc[p] = "R3"
    /\ wlock' = FALSE /\ notified' = [notified EXCEPT ![p] = TRUE]
    /\ pc' = [pc EXCEPT ![p] = "cret"] /\ reg' = [reg EXCEPT ![p].res = "pending"]
    /\ UNCHANGED <<ring, sm, waker, keep, gh, og>>


-----------------------------------------------------------------------------
\* Kind = "ogre": OgreArc::new, the reference counting of send_derived, handle drops, the allocator's free list
\* (an AtomicMove ring of slot ids, prefilled: alloc = dequeue, dealloc = enqueue; only its four counters matter here)

PoolDeqFA(p) ==      \* free_list.dequeuer_head.fetch_add(1)
    /\ pc[p] = "A1"
    /\ reg' = [reg EXCEPT ![p].ps = pl.dh]
    /\ pl' = [pl EXCEPT !.dh = Add(@, 1)]
    /\ pc' = [pc EXCEPT ![p] = "A2"]
    /\ UNCHANGED <<ring, sm, wk, gh, refs, dead, uaf>>
PoolDeqLoadTail(p) ==  \* free_list.tail.load: a free slot is there (an exhausted allocator -- the send is refused -- is not modelled further)
    /\ pc[p] = "A2"
    /\ pc' = [pc EXCEPT ![p] = IF Signed(Sub(pl.t, reg[p].ps)) > 0 THEN "A3" ELSE "full"]
    /\ UNCHANGED <<ring, sm, wk, reg, gh, og>>
PoolDeqRelease(p) ==   \* free_list.head CAS (in claim order); the control block is created with references_count = 1; the payload is written
    /\ pc[p] = "A3"
    /\ pl.h = reg[p].ps
    /\ pl' = [pl EXCEPT !.h = Add(@, 1)]
    /\ refs' = (reg[p].v :> 1) @@ refs
    /\ pc' = [pc EXCEPT ![p] = "S1"]
    /\ UNCHANGED <<ring, sm, wk, reg, gh, dead, uaf>>
SendCount(p) ==        \* running_streams_count(): used_streams_count.load
    /\ pc[p] = "S1"
    /\ reg' = [reg EXCEPT ![p].n = count, ![p].i = 0]
    /\ pc' = [pc EXCEPT ![p] = "S2"]
    /\ UNCHANGED <<ring, sm, wk, gh, og>>
SendIncRefs(p) ==      \* increment_references(count): references_count.fetch_add(count) -- BEFORE any copy is handed out
    /\ pc[p] = "S2"
    /\ refs' = [refs EXCEPT ![reg[p].v] = @ + reg[p].n]
    /\ reg' = [reg EXCEPT ![p].hv = reg[p].v, ![p].res = "ok"]
    /\ pc' = [pc EXCEPT ![p] = IF reg[p].n > 0 THEN "F0" ELSE "H1"]
    /\ UNCHANGED <<ring, sm, wk, gh, dead, uaf, pl>>

\* where a thread goes once the handle it was dropping is gone
AfterDrop(p) == IF reg[p].op = "drop" THEN "D1" ELSE "cret"
HandleDrop(p) ==       \* Drop for OgreArc: references_count.fetch_sub(1); the one that finds 1 destroys the payload and frees the slot
    /\ pc[p] = "H1"
    /\ LET v == reg[p].hv IN
       /\ uaf' = (uaf \/ v \in dead \/ v \notin DOMAIN refs)
       /\ IF v \in DOMAIN refs
          THEN /\ refs' = [refs EXCEPT ![v] = @ - 1]
               /\ IF refs[v] = 1
                  THEN dead' = dead \cup {v} /\ pc' = [pc EXCEPT ![p] = "Z1"]
                  ELSE UNCHANGED dead /\ pc' = [pc EXCEPT ![p] = AfterDrop(p)]
          ELSE UNCHANGED <<refs, dead>> /\ pc' = [pc EXCEPT ![p] = AfterDrop(p)]
    /\ UNCHANGED <<ring, sm, wk, reg, gh, pl>>
PoolEnqFA(p) ==        \* free_list.enqueuer_tail.fetch_add(1)
    /\ pc[p] = "Z1"
    /\ reg' = [reg EXCEPT ![p].ps = pl.e]
    /\ pl' = [pl EXCEPT !.e = Add(@, 1)]
    /\ pc' = [pc EXCEPT ![p] = "Z2"]
    /\ UNCHANGED <<ring, sm, wk, gh, refs, dead, uaf>>
PoolEnqLoadHead(p) ==  \* free_list.head.load (the free list cannot be full)
    /\ pc[p] = "Z2"
    /\ pc' = [pc EXCEPT ![p] = "Z3"]
    /\ UNCHANGED <<ring, sm, wk, reg, gh, og>>
PoolEnqPublish(p) ==   \* free_list.tail CAS (in reservation order)
    /\ pc[p] = "Z3"
    /\ pl.t = reg[p].ps
    /\ pl' = [pl EXCEPT !.t = Add(@, 1)]
    /\ pc' = [pc EXCEPT ![p] = AfterDrop(p)]
    /\ UNCHANGED <<ring, sm, wk, reg, gh, refs, dead, uaf>>

OgreStep(p) == \/ PoolDeqFA(p) \/ PoolDeqLoadTail(p) \/ PoolDeqRelease(p) \/ SendCount(p) \/ SendIncRefs(p)
               \/ HandleDrop(p) \/ PoolEnqFA(p) \/ PoolEnqLoadHead(p) \/ PoolEnqPublish(p)

-----------------------------------------------------------------------------
\* create_stream_id

CreateCountA(p) == \* created_streams_count.fetch_add(1)
    /\ pc[p] = "C1"
    /\ created' = created + 1
    /\ pc' = [pc EXCEPT ![p] = "C2"]
    /\ UNCHANGED <<ring, used, count, vac, vlock, slock, finished, wk, reg, gh, og>>
CreateCountB(p) == \* used_streams_count.fetch_add(1) -- BEFORE the list is rebuilt
    /\ pc[p] = "C2"
    /\ count' = count + 1
    /\ pc' = [pc EXCEPT ![p] = "C3"]
    /\ UNCHANGED <<ring, used, vac, vlock, slock, created, finished, wk, reg, gh, og>>
CreateVLock(p) ==  \* vacant_streams: concurrency_guard CAS
    /\ pc[p] = "C3" /\ ~vlock
    /\ vlock' = TRUE
    /\ pc' = [pc EXCEPT ![p] = "C4"]
    /\ UNCHANGED <<ring, used, count, vac, slock, created, finished, wk, reg, gh, og>>
CreateVLenT(p) ==  \* [y fsm.len.tail]
    /\ pc[p] = "C4"
    /\ pc' = [pc EXCEPT ![p] = "C5"]
    /\ UNCHANGED <<ring, sm, wk, reg, gh, og>>
CreateVPop(p) ==   \* [y fsm.len.head] the length is computed, the oldest vacant id read and the head advanced (under the guard)
    /\ pc[p] = "C5"
    /\ IF Len(vac) = 0
       THEN pc' = [pc EXCEPT ![p] = "panic"] /\ UNCHANGED <<vac, reg>>          \* MAX_STREAMS exhausted (the guard is released first; not modelled further)
       ELSE /\ reg' = [reg EXCEPT ![p].sid = Head(vac)]
            /\ vac' = Tail(vac)
            /\ pc' = [pc EXCEPT ![p] = "C6"]
    /\ UNCHANGED <<ring, used, count, vlock, slock, created, finished, wk, gh, og>>
CreateVUnlock(p) == \* concurrency_guard store(false)
    /\ pc[p] = "C6"
    /\ vlock' = FALSE
    /\ pc' = [pc EXCEPT ![p] = "C7"]
    /\ UNCHANGED <<ring, used, count, vac, slock, created, finished, wk, reg, gh, og>>
CreateKeep(p) ==   \* [y sm.keep.set] keep_streams_running[id] := true; then sync_vacant_and_used_streams
    /\ pc[p] = "C7"
    /\ keep' = [keep EXCEPT ![reg[p].sid] = TRUE]
    /\ pc' = [pc EXCEPT ![p] = "Y1"]
    /\ UNCHANGED <<ring, sm, waker, wlock, notified, reg, gh, og>>

-----------------------------------------------------------------------------
\* report_stream_dropped (after the drain loop)

DropWLock(p) ==    \* wakers_lock CAS; wakers[s] := None
    /\ pc[p] = "P1" /\ ~wlock
    /\ wlock' = TRUE /\ waker' = [waker EXCEPT ![reg[p].sid] = NoW]
    /\ pc' = [pc EXCEPT ![p] = "P2"]
    /\ UNCHANGED <<ring, sm, keep, notified, reg, gh, og>>
DropWUnlock(p) ==
    /\ pc[p] = "P2"
    /\ wlock' = FALSE
    /\ pc' = [pc EXCEPT ![p] = "P3"]
    /\ UNCHANGED <<ring, sm, waker, keep, notified, reg, gh, og>>
DropCountA(p) ==   \* finished_streams_count.fetch_add(1)
    /\ pc[p] = "P3"
    /\ finished' = finished + 1
    /\ pc' = [pc EXCEPT ![p] = "P4"]
    /\ UNCHANGED <<ring, used, count, vac, vlock, slock, created, wk, reg, gh, og>>
DropCountB(p) ==   \* used_streams_count.fetch_sub(1) -- BEFORE the list is rebuilt
    /\ pc[p] = "P4"
    /\ count' = count - 1
    /\ pc' = [pc EXCEPT ![p] = "P5"]
    /\ UNCHANGED <<ring, used, vac, vlock, slock, created, finished, wk, reg, gh, og>>
DropVPush(p) ==    \* vacant_streams: concurrency_guard CAS; the id is written and the tail advanced (under the guard)
    /\ pc[p] = "P5" /\ ~vlock
    /\ vlock' = TRUE /\ vac' = Append(vac, reg[p].sid)
    /\ pc' = [pc EXCEPT ![p] = "P6"]
    /\ UNCHANGED <<ring, used, count, slock, created, finished, wk, reg, gh, og>>
DropVUnlock(p) ==
    /\ pc[p] = "P6"
    /\ vlock' = FALSE
    /\ pc' = [pc EXCEPT ![p] = "Y1"]
    /\ UNCHANGED <<ring, used, count, vac, slock, created, finished, wk, reg, gh, og>>

-----------------------------------------------------------------------------
\* sync_vacant_and_used_streams: the list is rebuilt in place, one entry per step, under a lock the senders do not take

SyncLock(p) ==     \* streams_lock CAS; peek_remaining (unsynchronised with the vacant queue's own guard) + sort
    /\ pc[p] = "Y1" /\ ~slock
    /\ slock' = TRUE
    /\ reg' = [reg EXCEPT ![p].tgt = ListOf(Ids \ Elems(vac)), ![p].k = 0]
    /\ pc' = [pc EXCEPT ![p] = "Y2"]
    /\ UNCHANGED <<ring, used, count, vac, vlock, created, finished, wk, gh, og>>
SyncWrite(p) ==    \* [y sm.used.write] used[k] := target[k]
    /\ pc[p] = "Y2"
    /\ used' = [used EXCEPT ![reg[p].k] = reg[p].tgt[reg[p].k]]
    /\ reg' = [reg EXCEPT ![p].k = @ + 1]
    /\ pc' = [pc EXCEPT ![p] = IF reg[p].k + 1 < MaxS THEN "Y2" ELSE "Y3"]
    /\ UNCHANGED <<ring, count, vac, vlock, slock, created, finished, wk, gh, og>>
SyncUnlock(p) ==   \* streams_lock store(false); create / drop return
    /\ pc[p] = "Y3"
    /\ slock' = FALSE
    /\ pc' = [pc EXCEPT ![p] = "cret"]
    /\ reg' = [reg EXCEPT ![p].res = IF reg[p].op = "create" THEN "id" ELSE "dropped", ![p].rv = reg[p].sid]
    /\ UNCHANGED <<ring, used, count, vac, vlock, created, finished, wk, gh, og>>

-----------------------------------------------------------------------------
\* cancel_all_streams: every possible id (not the live list -- see the fixed entry FX-C07 in known_findings.json)

XAfterWake(p) == IF reg[p].i + 1 < MaxS THEN "X1" ELSE IF reg[p].op = "close" THEN "Q1" ELSE "cret"     \* end_all_streams goes on to wait for the streams to be gone
CancelNext(p) ==   \* [y sm.used.read]
    /\ pc[p] = "X1"
    /\ pc' = [pc EXCEPT ![p] = "X2"]
    /\ UNCHANGED <<ring, sm, wk, reg, gh, og>>
CancelClear(p) ==  \* [y sm.keep.clear] keep[i] := FALSE; wake_stream(i) begins
    /\ pc[p] = "X2"
    /\ keep' = [keep EXCEPT ![reg[p].i] = FALSE]
    /\ pc' = [pc EXCEPT ![p] = "XW1"]
    /\ UNCHANGED <<ring, sm, waker, wlock, notified, reg, gh, og>>
CancelWakePeek(p) ==
    /\ pc[p] = "XW1"
    /\ IF waker[reg[p].i] # NoW
       THEN /\ notified' = Wake(reg[p].i, notified)
            /\ pc' = [pc EXCEPT ![p] = XAfterWake(p)] /\ reg' = [reg EXCEPT ![p].i = @ + 1]
       ELSE UNCHANGED <<notified, reg>> /\ pc' = [pc EXCEPT ![p] = "XW2"]
    /\ UNCHANGED <<ring, sm, waker, wlock, keep, gh, og>>
CancelWakeLock(p) ==
    /\ pc[p] = "XW2" /\ ~wlock
    /\ wlock' = TRUE
    /\ notified' = Wake(reg[p].i, notified)
    /\ pc' = [pc EXCEPT ![p] = "XW3"]
    /\ UNCHANGED <<ring, sm, waker, keep, reg, gh, og>>
CancelWakeUnlock(p) ==
    /\ pc[p] = "XW3"
    /\ wlock' = FALSE
    /\ pc' = [pc EXCEPT ![p] = XAfterWake(p)] /\ reg' = [reg EXCEPT ![p].i = @ + 1]
    /\ UNCHANGED <<ring, sm, waker, keep, notified, gh, og>>


-----------------------------------------------------------------------------
\* close: gracefully_end_all_streams(Duration::ZERO) = end_all_streams, then is_channel_open() and running_streams_count() (what the harness asks)
\*   flush: pending_items_count() = the longest of the listed listeners' rings (for each entry of the list up to the first MAX:
\*          tail.load - head.load); > 0 -> wake_stream(id) for every id, sleep 1 ms, again;  = 0 -> cancel_all_streams;
\*   then while used_streams_count.load > 0: sleep 1 ms
\* the entry of the list is read (a plain read, no scheduling point) in the step that precedes the loads on its ring
FlushStart(p, rg) == LET id == used[0] IN
                     IF id = MAX THEN <<"X1", [rg EXCEPT !.i = 0]>>                  \* no listener listed: nothing pending, cancel_all_streams begins
                     ELSE <<"FL1", [rg EXCEPT !.sid = id, !.i = 0, !.mx = 0]>>
CallClose(p) ==
    /\ pc[p] = "idle"
    /\ LET rg == [NoReg EXCEPT !.op = "close", !.acc = done] IN
       /\ pc' = [pc EXCEPT ![p] = FlushStart(p, rg)[1]]
       /\ reg' = [reg EXCEPT ![p] = FlushStart(p, rg)[2]]
    /\ UNCHANGED <<ring, sm, wk, gh, og>>
CloseLenTail(p) ==
    /\ pc[p] = "FL1"
    /\ reg' = [reg EXCEPT ![p].t = rt[reg[p].sid]]
    /\ pc' = [pc EXCEPT ![p] = "FL2"]
    /\ UNCHANGED <<ring, sm, wk, gh, og>>
CloseLenHead(p) ==     \* the ring's length; on to the next listed listener, or the flush decides
    /\ pc[p] = "FL2"
    /\ LET len == Sub(reg[p].t, rh[reg[p].sid])
           mx  == IF len > reg[p].mx THEN len ELSE reg[p].mx
           j   == reg[p].i + 1 IN
       IF j < MaxS /\ used[j] # MAX
       THEN /\ reg' = [reg EXCEPT ![p].mx = mx, ![p].i = j, ![p].sid = used[j]]
            /\ pc' = [pc EXCEPT ![p] = "FL1"]
       ELSE /\ reg' = [reg EXCEPT ![p].mx = mx, ![p].i = 0, ![p].k = 0]
            /\ pc' = [pc EXCEPT ![p] = IF mx > 0 THEN "FW1" ELSE "X1"]
    /\ UNCHANGED <<ring, sm, wk, gh, og>>
\* wake_all_streams: wake_stream(k) for every id k, then the sleep
FAfterWake(p) == IF reg[p].k + 1 < MaxS THEN "FW1" ELSE "SL1"
CloseWakePeek(p) ==
    /\ pc[p] = "FW1"
    /\ IF waker[reg[p].k] # NoW
       THEN /\ notified' = Wake(reg[p].k, notified)
            /\ pc' = [pc EXCEPT ![p] = FAfterWake(p)] /\ reg' = [reg EXCEPT ![p].k = @ + 1]
       ELSE UNCHANGED <<notified, reg>> /\ pc' = [pc EXCEPT ![p] = "FW2"]
    /\ UNCHANGED <<ring, sm, waker, wlock, keep, gh, og>>
CloseWakeLock(p) ==
    /\ pc[p] = "FW2" /\ ~wlock
    /\ wlock' = TRUE
    /\ notified' = Wake(reg[p].k, notified)
    /\ pc' = [pc EXCEPT ![p] = "FW3"]
    /\ UNCHANGED <<ring, sm, waker, keep, reg, gh, og>>
CloseWakeUnlock(p) ==
    /\ pc[p] = "FW3"
    /\ wlock' = FALSE
    /\ pc' = [pc EXCEPT ![p] = FAfterWake(p)] /\ reg' = [reg EXCEPT ![p].k = @ + 1]
    /\ UNCHANGED <<ring, sm, waker, keep, notified, gh, og>>
\* a sleep of one of the two polling loops is over
CloseSlept(p) ==
    /\ pc[p] \in {"SL1", "SL2"}
    /\ IF pc[p] = "SL1"
       THEN pc' = [pc EXCEPT ![p] = FlushStart(p, reg[p])[1]] /\ reg' = [reg EXCEPT ![p] = FlushStart(p, reg[p])[2]]
       ELSE pc' = [pc EXCEPT ![p] = "Q1"] /\ UNCHANGED reg
    /\ UNCHANGED <<ring, sm, wk, gh, og>>
CloseRunLoad(p) ==     \* while running_streams_count() > 0 { sleep }
    /\ pc[p] = "Q1"
    /\ pc' = [pc EXCEPT ![p] = IF count > 0 THEN "SL2" ELSE "Q2"]
    /\ UNCHANGED <<ring, sm, wk, reg, gh, og>>
CloseRunRet(p) ==      \* the value end_all_streams returns; the caller's is_channel_open() begins
    /\ pc[p] = "Q2"
    /\ reg' = [reg EXCEPT ![p].left = count, ![p].k = 0]
    /\ pc' = [pc EXCEPT ![p] = "O1"]
    /\ UNCHANGED <<ring, sm, wk, gh, og>>
CloseOpenRead(p) ==    \* is_any_stream_running: [y sm.keep.read] per id until one says yes; then the caller's running_streams_count()
    /\ pc[p] = "O1"
    /\ IF keep[reg[p].k]
       THEN reg' = [reg EXCEPT ![p].open = TRUE] /\ pc' = [pc EXCEPT ![p] = "O2"]
       ELSE IF reg[p].k + 1 < MaxS
       THEN reg' = [reg EXCEPT ![p].k = @ + 1] /\ UNCHANGED pc
       ELSE pc' = [pc EXCEPT ![p] = "O2"] /\ UNCHANGED reg
    /\ UNCHANGED <<ring, sm, wk, gh, og>>
CloseRunning(p) ==
    /\ pc[p] = "O2"
    /\ reg' = [reg EXCEPT ![p].run = count, ![p].res = "closed"]
    /\ pc' = [pc EXCEPT ![p] = "cret"]
    /\ UNCHANGED <<ring, sm, wk, gh, og>>
CloseStep(p) == \/ CloseLenTail(p) \/ CloseLenHead(p) \/ CloseWakePeek(p) \/ CloseWakeLock(p) \/ CloseWakeUnlock(p)
                \/ CloseRunLoad(p) \/ CloseRunRet(p) \/ CloseOpenRead(p) \/ CloseRunning(p)

-----------------------------------------------------------------------------
\* return of the API-level operation (not a scheduling point of its own: the thread gets here within its last step)
ChanRet(p) ==
    /\ pc[p] = "cret"
    /\ pc' = [pc EXCEPT ![p] = "idle"]
    /\ LET r == reg[p] IN
       /\ done' = IF r.op = "send" THEN done \cup {r.v} ELSE done
       /\ got'  = IF r.op \in {"poll", "poll2"} /\ r.res = "item" THEN [got EXCEPT ![r.sid] = Append(@, r.rv)]
                  ELSE IF r.op = "create" THEN [got EXCEPT ![r.sid] = <<>>]
                  ELSE got
       /\ life' = IF r.op = "create" THEN [life EXCEPT ![r.sid] = "live"]
                  ELSE IF r.op = "drop" THEN [life EXCEPT ![r.sid] = "none"]
                  ELSE life
       \* what a listener must never yield: everything accepted before its creation was asked for
       /\ old'  = IF r.op = "create" THEN [old EXCEPT ![r.sid] = r.snap] ELSE old
       /\ owed' = IF r.op = "create" THEN [owed EXCEPT ![r.sid] = {}] ELSE owed
    /\ UNCHANGED <<ring, sm, wk, reg, og>>

ChanStep(p) == \/ FanRead(p) \/ EnqFA(p) \/ EnqLoadHead(p) \/ EnqRecedeOk(p) \/ EnqRecedeFail(p) \/ EnqPublish(p)
               \/ WakePeek(p) \/ WakeLock(p) \/ WakeUnlock(p)
               \/ DeqFA(p) \/ DeqLoadTail(p) \/ DeqRecedeOk(p) \/ DeqRecedeFail(p) \/ DeqRelease(p)
               \/ KeepRead(p) \/ WakerPeek(p) \/ WakerLock(p) \/ WakerUnlock(p)
               \/ CreateCountA(p) \/ CreateCountB(p) \/ CreateVLock(p) \/ CreateVLenT(p) \/ CreateVPop(p) \/ CreateVUnlock(p) \/ CreateKeep(p)
               \/ DropWLock(p) \/ DropWUnlock(p) \/ DropCountA(p) \/ DropCountB(p) \/ DropVPush(p) \/ DropVUnlock(p)
               \/ SyncLock(p) \/ SyncWrite(p) \/ SyncUnlock(p)
               \/ CancelNext(p) \/ CancelClear(p) \/ CancelWakePeek(p) \/ CancelWakeLock(p) \/ CancelWakeUnlock(p)
               \/ OgreStep(p) \/ CloseStep(p)

-----------------------------------------------------------------------------
\* invariants of the channel itself

InvRingBounds == \A r \in Ids : Sub(rt[r], rh[r]) <= N /\ Signed(Sub(re[r], rt[r])) >= 0
InvLocks == /\ wlock <=> (\E p \in Procs : pc[p] \in {"W3", "R3", "XW3", "P2", "FW3"})
            /\ slock <=> (\E p \in Procs : pc[p] \in {"Y2", "Y3"})
            /\ vlock <=> (\E p \in Procs : pc[p] \in {"C4", "C5", "C6", "P6"})
InvNeverFull == \A p \in Procs : pc[p] # "full"
NoPanic == \A p \in Procs : pc[p] # "panic"
\* Kind = "ogre" (C05 / C14 at the level of the channel): copies of an event in the listeners' rings
Copies(v) == Cardinality({<<r, i>> \in Ids \X (1..N) : i <= Len(Q(r)) /\ Q(r)[i] = v})
\* no handle is ever used after its event was destroyed, and a destroyed event has no copy left in any ring
InvNoUseAfterFree == ~uaf /\ \A v \in dead : Copies(v) = 0
\* the free list's counters stay in order
InvPoolBounds == Signed(Sub(pl.t, pl.h)) >= 0 /\ Signed(Sub(pl.e, pl.t)) >= 0 /\ Signed(Sub(pl.dh, pl.h)) >= 0 /\ Sub(pl.t, pl.h) <= N
\* whenever no operation is in progress the counter of a live event is the number of its copies still queued (handles are dropped inside
\* the operations that obtain them), and every event whose copies were all consumed has been destroyed
AllIdle == \A p \in Procs : pc[p] = "idle"
InvRefsExact == (Kind = "ogre" /\ AllIdle /\ finished = 0 /\ created = count) => \A v \in DOMAIN refs : IF v \in dead THEN refs[v] = 0 ELSE refs[v] = Copies(v) /\ refs[v] > 0
\* the running-streams counter equals the number of listeners whenever no create / drop is in progress (C10)
Churning == \E p \in Procs : reg[p].op \in {"create", "drop"} /\ pc[p] # "idle"
InvRunningCount == ~Churning => (count = MaxS - Len(vac) /\ count = created - finished)
\* ... and then the list is the sorted set of live ids
InvListInSync == ~Churning => used = ListOf(Ids \ Elems(vac))
=============================================================================
