--------------------------- MODULE MC_RingAtomic ---------------------------
(* Exhaustive model-checking wrapper: threads execute fixed scripts. *)
EXTENDS RingAtomic

CONSTANT Script          \* <<script of thread 0, script of thread 1, ...>> (Procs = 0..Len(Script)-1)
VARIABLE opi
mcvars == <<vars, opi>>

E(v) == [op |-> "enq", v |-> v, i |-> 0]
D    == [op |-> "deq", v |-> 0, i |-> 0]
L    == [op |-> "len", v |-> 0, i |-> 0]
R    == [op |-> "reserve", v |-> 0, i |-> 0]
F(i, v) == [op |-> "fill", v |-> v, i |-> i]
P(i) == [op |-> "pub_idx", v |-> 0, i |-> i]
U(i) == [op |-> "unleak_idx", v |-> 0, i |-> i]

\* 2 producers x 2, 2 consumers x 2: the buffer (N=2) fills and drains inside the run
Script_2p2c == << <<E(11), E(12)>>, <<E(21), E(22)>>, <<D, D>>, <<D, D>> >>
Script_2p1c == << <<E(11), E(12)>>, <<E(21), E(22)>>, <<D, D>> >>
Script_1p2c == << <<E(11), E(12), E(13)>>, <<D, D>>, <<D>> >>
\* 3 producers colliding at the full boundary against one consumer
Script_3p1c == << <<E(11), E(12)>>, <<E(21)>>, <<E(31)>>, <<D, D, D>> >>
\* producer/consumer with length queries
Script_len  == << <<E(11), E(12), E(13)>>, <<D, L, D>>, <<L, D>> >>
\* reservations: reserve, fill, publish / cancel (reverse order), with a consumer
Script_resv == << <<R, R, F(2, 12), U(2), F(1, 11), P(1), R, F(1, 13), P(1)>>, <<D, D, D>> >>
Script_resv2 == << <<R, F(1, 11), P(1), R, R, U(2), U(1), E(12)>>, <<D, D>> >>

MCInit == Init /\ opi = [p \in Procs |-> 1]

MCCall(p) == /\ opi[p] <= Len(Script[p + 1])
             /\ Call(p, Script[p + 1][opi[p]])
             /\ opi' = [opi EXCEPT ![p] = @ + 1]

AllDone == \A p \in Procs : pc[p] = "idle" /\ opi[p] > Len(Script[p + 1])

MCNext == \/ \E p \in Procs : MCCall(p) \/ (Step(p) /\ UNCHANGED opi)
          \/ (AllDone /\ UNCHANGED mcvars)

MCSpec == MCInit /\ [][MCNext]_mcvars
=============================================================================
