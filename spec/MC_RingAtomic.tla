--------------------------- MODULE MC_RingAtomic ---------------------------
(* Exhaustive model-checking wrapper: threads execute fixed scripts. *)
EXTENDS RingAtomic

CONSTANT Script          \* <<script of thread 0, script of thread 1, ...>> (Procs = 0..Len(Script)-1)
VARIABLES opi, got   \* got[p]: values this thread dequeued (allocated) and has not given back yet
mcvars == <<vars, opi, got>>

E(v) == [op |-> "enq", v |-> v, i |-> 0]
D    == [op |-> "deq", v |-> 0, i |-> 0]
L    == [op |-> "len", v |-> 0, i |-> 0]
A    == D                                         \* pool: alloc = dequeue a free id
Fr   == [op |-> "free", v |-> 0, i |-> 0]         \* pool: give back the oldest id this thread owns (no-op if none)
FrL  == [op |-> "free", v |-> 0, i |-> 1]         \* ... the newest one
R    == [op |-> "reserve", v |-> 0, i |-> 0]
F(i, v) == [op |-> "fill", v |-> v, i |-> i]
P(i) == [op |-> "pub_idx", v |-> 0, i |-> i]
U(i) == [op |-> "unleak_idx", v |-> 0, i |-> i]

\* 2 producers x 2, 2 consumers x 2: the buffer (N=2) fills and drains inside the run
Script_2p2c1 == << <<E(11)>>, <<E(21), E(22)>>, <<D>>, <<D, D>> >>
Script_2p2c == << <<E(11), E(12)>>, <<E(21), E(22)>>, <<D, D>>, <<D, D>> >>
Script_2p1c == << <<E(11), E(12)>>, <<E(21), E(22)>>, <<D, D>> >>
Script_1p2c == << <<E(11), E(12), E(13)>>, <<D, D>>, <<D>> >>
\* 3 producers colliding at the full boundary against one consumer
Script_3p1c == << <<E(11), E(12)>>, <<E(21)>>, <<E(31)>>, <<D, D, D>> >>
\* producer/consumer with length queries
Script_len  == << <<E(11), E(12), E(13)>>, <<D, L, D>>, <<L, D>> >>
\* reservations: reserve, fill, publish / cancel (reverse order), with a consumer
Script_resv == << <<R, R, F(2, 12), U(2), F(1, 11), P(1), R, F(1, 13), P(1)>>, <<D, D, D>> >>
Script_resv2 == << <<R, F(1, 11), P(1), R, U(1), R, F(1, 12), P(1), E(13)>>, <<D, D, D>> >>

\* pool allocator scripts (Prefill = TRUE): exhaust-and-refill from several threads
Script_pool3 == << <<A, A, Fr, A, Fr, Fr>>, <<A, Fr, A, Fr>>, <<A, A, FrL, Fr>> >>
Script_pool3s == << <<A, A, Fr, A>>, <<A, Fr, A>>, <<A, FrL>> >>
Script_pool2 == << <<A, A, A, Fr, Fr, A>>, <<A, Fr, A, A, Fr, Fr>> >>
Script_pool4s == << <<A, Fr, A>>, <<A, Fr>>, <<A, Fr>>, <<A>> >>
Script_pool4 == << <<A, Fr, A, Fr>>, <<A, Fr, A, Fr>>, <<A, Fr>>, <<A, Fr>> >>

MCInit == Init /\ opi = [p \in Procs |-> 1] /\ got = [p \in Procs |-> <<>>]

MCCall(p) == /\ opi[p] <= Len(Script[p + 1])
             /\ pc[p] = "idle"
             /\ opi' = [opi EXCEPT ![p] = @ + 1]
             /\ LET o == Script[p + 1][opi[p]] IN
                IF o.op = "free"
                THEN IF got[p] = <<>> THEN UNCHANGED <<vars, got>>
                     ELSE LET k == IF o.i = 1 THEN Len(got[p]) ELSE 1 IN
                          /\ Call(p, E(got[p][k]))
                          /\ got' = [got EXCEPT ![p] = SubSeq(@, 1, k - 1) \o SubSeq(@, k + 1, Len(@))]
                ELSE Call(p, o) /\ UNCHANGED got

MCStep(p) == /\ Step(p)
             /\ UNCHANGED opi
             /\ got' = IF pc[p] = "ret" /\ reg[p].op.op = "deq" /\ reg[p].res.ok THEN [got EXCEPT ![p] = Append(@, reg[p].res.v)] ELSE got

\* C13: no id is owned twice
InvOneOwner == \A p1, p2 \in Procs : \A i \in 1..Len(got[p1]) : \A j \in 1..Len(got[p2]) : (p1 # p2 \/ i # j) => got[p1][i] # got[p2][j]

AllDone == \A p \in Procs : pc[p] = "idle" /\ opi[p] > Len(Script[p + 1])

MCNext == \/ \E p \in Procs : MCCall(p) \/ MCStep(p)
          \/ (AllDone /\ UNCHANGED mcvars)

MCSpec == MCInit /\ [][MCNext]_mcvars
=============================================================================
