---------------------------- MODULE Trace_AbsAvg ----------------------------
(***************************************************************************)
(* L1 (abstract) specification of the incremental-average metric as a trace *)
(* specification over API-level events only (C19):                          *)
(*   - every recorded measurement is counted exactly once: when nothing is  *)
(*     in progress the count is the number of `inc` calls        (final)    *)
(*   - a reading returns a count c with  returned-before-the-call <= c <=   *)
(*     started-before-the-return, together with the average that belongs    *)
(*     to a fold of c of the recorded measurements (bit-exact, computed by  *)
(*     the harness with the library's own f32 formula: flag `consistent`)   *)
(*   - the final average is the arithmetic mean within tolerance (`mean_ok`)*)
(* Atomic-operation events are ignored here: this is the oracle used when   *)
(* the code no longer follows the L2 specification IncAvg.                  *)
(***************************************************************************)
EXTENDS Integers, Sequences, FiniteSets, TraceBase

CONSTANT Procs
VARIABLES started, returned, active, lo
vars == <<started, returned, active, lo>>
tvars == <<vars, l, bad>>

TraceInit == started = 0 /\ returned = 0 /\ active = {} /\ lo = [p \in Procs |-> 0] /\ TBInit
TReset == Ev.k = "reset" /\ started' = 0 /\ returned' = 0 /\ active' = {} /\ lo' = [p \in Procs |-> 0]
TCall == /\ Ev.k = "call" /\ ~IsNopCall
         /\ started' = IF Ev.x.op = "inc" THEN started + 1 ELSE started
         /\ active' = active \cup {P}
         /\ lo' = IF Ev.x.op = "probe" THEN [lo EXCEPT ![P] = returned] ELSE lo
         /\ UNCHANGED returned
TRet == /\ Ev.k = "ret" /\ ~IsNopRet
        /\ returned' = IF Ev.fn = "inc" THEN returned + 1 ELSE returned
        /\ active' = active \ {P}
        /\ UNCHANGED <<started, lo>>
TOther == Ev.k \in {"op", "panic", "wake", "final", "park", "unpark"} /\ UNCHANGED vars

EvBadA ==
    IF Ev.k = "ret" /\ Ev.fn = "probe" /\ ~Ev.x.consistent THEN "InvProbePairConsistent"
    ELSE IF Ev.k = "ret" /\ Ev.fn = "probe" /\ (Ev.x.v > started \/ Ev.x.v < lo[P]) THEN "InvProbeCountWindow"
    ELSE IF Ev.k = "final" /\ active = {} /\ Ev.x.count # Ev.x.expected THEN "InvNoLostUpdate"
    ELSE IF Ev.k = "final" /\ active = {} /\ ~Ev.x.consistent THEN "InvFoldIsPermutation"
    ELSE IF Ev.k = "final" /\ active = {} /\ ~Ev.x.mean_ok THEN "InvMeanWithinTolerance"
    ELSE EvBad

TraceNext == /\ l <= Len(Rec)
             /\ l' = l + 1
             /\ IF Skipping
                THEN UNCHANGED <<vars, bad>>
                ELSE /\ (((IsNopCall \/ IsNopRet) /\ UNCHANGED vars) \/ TReset \/ TCall \/ TRet \/ TOther)
                     /\ bad' = EvBadA
                     /\ NoteBad(bad')
TraceSpec == TraceInit /\ [][TraceNext]_tvars
=============================================================================
