"""Specification -> implementation: TLC's state graph of an L2 model is turned into a set of schedules that together
traverse every transition of the graph; each schedule is replayed into the real code under the deterministic scheduler
and the recorded execution is validated against the L2 trace specification (so the real code provably entered every
reachable state of the small model and answered as the model says) and judged by the L1 oracle.

The MC_* wrappers execute fixed per-thread scripts.  A generated root module (MCG) names the three kinds of step so that
TLC labels the edges of the dumped graph:
    GCall(p)  the thread starts its next API-level operation      -> one scheduler step (Ctx::call)
    GOp(p)    one atomic operation / yield-delimited block        -> one scheduler step
    GRet(p)   the operation returns                                -> no step of its own (same step as its last access)
"""
import os, re, shutil, time, collections, json
from .core import *

EDGE_RE = re.compile(r'^(-?\d+) -> (-?\d+) \[label="(\w+)(?:\((\d+)\))?"')
NODE_RE = re.compile(r'^(-?\d+) \[label=')


def tla_script(threads, opfmt):
    return "<< " + ", ".join("<<" + ", ".join(opfmt(o) for o in ops) + ">>" for ops in threads) + " >>"


def write_mcg(dirname, base, script_tla, step_expr="MCStep(p)", extra_defs="", extra_next="", ret_pred='pc[p] = "ret"'):
    if step_expr is None:
        # the wrapper already names its kinds of step (MCCall / MCPoll / MCUnpark / MCOp / MCRet)
        with open(os.path.join(dirname, "MCG.tla"), "w") as f:
            f.write("---- MODULE MCG ----\nEXTENDS %s\nScriptG == %s\n%s\nGNext == MCNext\n====\n" % (base, script_tla, extra_defs))
        return
    txt = """---- MODULE MCG ----
EXTENDS %s
ScriptG == %s
%s
GCall(p) == MCCall(p)
GOp(p)   == ~(%s) /\\ %s
GRet(p)  == (%s) /\\ %s
GNext == %s\\E p \\in Procs : GCall(p) \\/ GOp(p) \\/ GRet(p)
====
""" % (base, script_tla, extra_defs, ret_pred, step_expr, ret_pred, step_expr, extra_next)
    with open(os.path.join(dirname, "MCG.tla"), "w") as f:
        f.write(txt)


def dump_graph(c, name, base, script_tla, consts, invariants=(), step_expr="MCStep(p)", extra_defs="", extra_next="", workers=6, timeout=900, max_states=200000, ret_pred='pc[p] = "ret"', constraint=None):
    """runs TLC on the generated module with -dump dot,actionlabels; returns (edges, init, tlc result)"""
    d = os.path.join(WORK, "tlc", "%s_graph_%s" % (c.prop, name))
    shutil.rmtree(d, ignore_errors=True)
    os.makedirs(d, exist_ok=True)
    write_mcg(d, base, script_tla, step_expr, extra_defs, extra_next, ret_pred)
    cfg = os.path.join(d, "MCG.cfg")
    write_cfg(cfg, consts, init="MCInit", next_="GNext", invariants=invariants, deadlock=False, subst={"Script": "ScriptG"}, constraint=constraint)
    dot = os.path.join(d, "g.dot")
    cmd = ["timeout", str(timeout), "tlc", "-workers", str(workers), "-metadir", os.path.join(d, "states"), "-cleanup", "-noGenerateSpecTE",
           "-dump", "dot,actionlabels", dot, "-config", cfg, os.path.join(d, "MCG.tla")]
    t0 = time.time()
    p = sh(cmd, cwd=d, env={"JAVA_TOOL_OPTIONS": "-Xmx6g -DTLA-Library=" + SPEC}, check=False)
    with open(os.path.join(d, "tlc.out"), "w") as f:
        f.write(p.stdout)
    r = parse_tlc(p.stdout)
    r["wall"] = time.time() - t0
    rec = {"module": "MCG(%s)" % base, "cfg": name, "consts": {k: tla_val(v) for k, v in consts.items()}, "subst": {"Script": script_tla}, "distinct": r["distinct"], "generated": r["generated"],
           "depth": r["depth"], "wall_s": round(r["wall"], 1), "expect": "pass",
           "result": "pass" if r["ok"] else ("violated:" + r["violated"] if r["violated"] else "error")}
    c.mc_runs.append(rec)
    c.states += r["distinct"]
    c.transitions += r["generated"]
    log("[tlc] %-28s %-10s %9d distinct %10d generated depth %3d  %5.1fs -> %s (graph dump)" % ("MCG(%s)" % base, name, r["distinct"], r["generated"], r["depth"], r["wall"], rec["result"]))
    if not r["ok"]:
        if r["violated"]:
            c.tool_errors.append("the model MCG(%s)/%s fails on its own (%s, see %s)" % (base, name, rec["result"], os.path.join(d, "tlc.out")))
        else:
            c.tool_errors.append("TLC graph dump %s/%s: %s (%s)" % (base, name, r["error"], os.path.join(d, "tlc.out")))
        return None, None, r
    if r["distinct"] > max_states:
        c.tool_errors.append("graph of %s/%s too large to cover (%d states)" % (base, name, r["distinct"]))
        return None, None, r
    edges = collections.defaultdict(list)
    init = None
    nodes = set()
    with open(dot) as f:
        for line in f:
            m = EDGE_RE.match(line)
            if m:
                edges[m.group(1)].append((m.group(3), int(m.group(4)) if m.group(4) is not None else -1, m.group(2)))
                nodes.add(m.group(1))
                nodes.add(m.group(2))
                continue
            m = NODE_RE.match(line)
            if m:
                nodes.add(m.group(1))
                if init is None and "style = filled" in line:
                    init = m.group(1)
    os.remove(dot)
    r["nodes"] = len(nodes)
    return edges, init, r


def edge_cover(edges, init, max_paths=None):
    """greedy transition cover: paths from init to a terminal state that together traverse every edge.
       returns (paths, n_edges, n_covered); a path is a list of (label, thread, dst)"""
    # dedupe parallel edges with identical (label, thread, dst)
    adj = {u: sorted(set(v)) for u, v in edges.items()}      # sorted: the cover does not depend on the order TLC's workers wrote the graph in
    all_edges = set((u, e) for u, es in adj.items() for e in es)
    # shortest path tree from init
    parent = {init: None}
    dq = collections.deque([init])
    order = []
    while dq:
        u = dq.popleft()
        order.append(u)
        for e in adj.get(u, ()):
            if e[2] not in parent:
                parent[e[2]] = (u, e)
                dq.append(e[2])
    # next hop towards the nearest terminal state (reverse BFS)
    radj = collections.defaultdict(list)
    for u, es in adj.items():
        for e in es:
            radj[e[2]].append((u, e))
    terminals = [n for n in parent if not adj.get(n)]
    exit_hop = {t: None for t in terminals}
    dq = collections.deque(terminals)
    while dq:
        v = dq.popleft()
        for (u, e) in radj.get(v, ()):
            if u not in exit_hop:
                exit_hop[u] = e
                dq.append(u)
    uncovered = set(all_edges)
    paths = []

    def prefix_to(u):
        p = []
        while parent[u] is not None:
            pu, e = parent[u]
            p.append((pu, e))
            u = pu
        p.reverse()
        return p

    # deepest-first: long prefixes cover many edges on the way
    for u in reversed(order):
        for e in adj.get(u, ()):
            if (u, e) not in uncovered:
                continue
            path = prefix_to(u) + [(u, e)]
            for x in path:
                uncovered.discard(x)
            cur = e[2]
            guard = 0
            while adj.get(cur) and guard < 100000:
                guard += 1
                nxt = None
                for e2 in adj[cur]:
                    if (cur, e2) in uncovered:
                        nxt = e2
                        break
                if nxt is None:
                    nxt = exit_hop.get(cur)
                    if nxt is None:
                        break           # no terminal state reachable (a cycle without exit): stop here
                uncovered.discard((cur, nxt))
                path.append((cur, nxt))
                cur = nxt[2]
            paths.append([x[1] for x in path])
            if max_paths and len(paths) >= max_paths:
                return paths, len(all_edges), len(all_edges) - len(uncovered)
    return paths, len(all_edges), len(all_edges) - len(uncovered)


STEP_LABELS = ("GCall", "MCCall", "GOp", "MCPoll", "MCUnpark", "MCOp", "MCSlept")


def schedules_of(paths):
    """thread ids of the steps that are scheduler steps in the harness (calls and operations; returns are not)"""
    out = []
    for p in paths:
        sch = []
        started = set()
        for (lab, t, _dst) in p:
            if lab not in STEP_LABELS or t < 0:
                continue
            if t not in started:
                started.add(t)
                sch.append(t)       # the thread's very first step only takes it to its first call (nothing is recorded)
            sch.append(t)
        out.append(sch)
    return out


def replay_cover(c, name, base, script_tla, mc_consts, scenario, trace_module, trace_consts, invariants=(), step_expr="MCStep(p)", extra_defs="", extra_next="",
                 max_paths=None, judge_fn=None, profile="debug", chunk=400, ret_pred='pc[p] = "ret"', strict=True, constraint=None):
    """TLC graph -> transition cover -> replay into the real code -> L2 trace validation + L1 verdicts.
       `scenario` is the harness scenario (without `explore`) that runs the same scripts as ScriptG."""
    edges, init, r = dump_graph(c, name, base, script_tla, mc_consts, invariants=invariants, step_expr=step_expr, extra_defs=extra_defs, extra_next=extra_next, ret_pred=ret_pred, constraint=constraint)
    if edges is None:
        return None
    paths, n_edges, n_cov = edge_cover(edges, init, max_paths=max_paths)
    scheds = schedules_of(paths)
    # identical schedules arise from paths that differ only in return steps: one replay stands for all of them
    paths_of = collections.OrderedDict()
    for p_, s_ in zip(paths, scheds):
        paths_of.setdefault(tuple(s_), []).append(p_)
    uniq = list(paths_of.keys())
    scns = []
    for k in range(0, len(uniq), chunk):
        s = dict(scenario)
        s["id"] = "%s_cover%d" % (scenario["id"], k // chunk)
        s["explore"] = {"mode": "replay", "schedules": [list(x) for x in uniq[k:k + chunk]]}
        scns.append(s)
    trace, runs, v = c.conform(scns, name + "_cover", trace_module, trace_consts, profile=profile)
    sched_of = {}
    for s_ in scns:
        for i, sch in enumerate(s_["explore"]["schedules"]):
            sched_of[(s_["id"], i + 1)] = tuple(sch)
    diverged = set((x["scn"], x["run"]) for x in runs if x.get("diverged", -1) >= 0)
    incomplete = set((x["scn"], x["run"]) for x in runs if x["outcome"] in ("stalled", "steplimit"))
    rejected = set((m["run"]["scn"], m["run"]["run"]) for m in v["mismatches"]) | set((x["scn"], x["run"]) for x in v.get("unvalidated", []))
    other_steps = set()
    if strict:
        # the recorded execution must consist of exactly the path's steps, thread by thread: one `call` event per GCall, one `op` event per GOp
        got = {}
        cur = None
        with open(trace) as f:
            for line in f:
                if '"k":"reset"' in line:
                    e = json.loads(line)
                    cur = (e["x"]["scn"], e["x"]["run"])
                    got[cur] = []
                elif cur is not None and ('"k":"call"' in line or '"k":"op"' in line or '"k":"unpark"' in line or '"k":"slept"' in line):
                    e = json.loads(line)
                    got[cur].append(e["t"])
        for key, sch in sched_of.items():
            seen = set()
            want = []
            for t in sch:
                if t not in seen:
                    seen.add(t)
                    continue
                want.append(t)
            if got.get(key) != want:
                other_steps.add(key)
    # the scheduler never re-runs an iteration of a spin loop unless somebody wrote something in between (it parks the spinning thread);
    # a path of the model that does so is stutter-equivalent to one that does not, and its replay "diverges" while still being a
    # behaviour of the L2 specification: such replays are counted, not reported as drift
    pruned = (diverged | other_steps) - rejected - incomplete
    followed = set(sched_of.keys()) - diverged - other_steps - rejected - incomplete
    # count distinct edges (label, thread, dst) per source is not kept in the path: recount through the graph
    covered_edges = set()
    for key in followed:
        for p_ in paths_of[sched_of[key]]:
            src = init
            for e in p_:
                covered_edges.add((src, e))
                src = e[2]
    rec = {"graph": name, "model": base, "script": script_tla, "states": r["distinct"], "transitions_in_graph": n_edges, "transitions_in_generated_paths": n_cov, "paths": len(paths),
           "schedules_replayed": len(uniq), "replays_following_their_path_step_by_step": len(followed), "transitions_entered_by_the_real_code": len(covered_edges),
           "replays_pruned_spin_iterations": len(pruned), "replays_incomplete": len(incomplete), "replays_rejected_by_L2_trace_spec": len(rejected),
           "replays_accepted_by_L2_trace_spec": v["runs_ok"]}
    c.extra.setdefault("spec_to_impl_transition_cover", []).append(rec)
    log("[cover] %-22s %d states, %d paths -> %d schedules; followed %d (%d/%d transitions entered by the real code), spin-pruned %d, incomplete %d, rejected %d" % (
        name, r["distinct"], len(paths), len(uniq), len(followed), len(covered_edges), n_edges, len(pruned), len(incomplete), len(rejected)))
    if rejected or incomplete:
        c.drift.append("%s: %d of %d schedules derived from the %s state graph could not be followed by the real code (%d rejected by %s, %d ended with a stuck thread)" % (
            name, len(rejected | incomplete), len(uniq), base, len(rejected), trace_module, len(incomplete)))
    if judge_fn:
        judge_fn(scns, name + "_cover", trace, runs, v)
    return rec
