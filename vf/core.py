"""Core plumbing of the reactive-mutiny verification driver (stdlib only).

  * builds the Rust harness against /repo's working tree
  * runs TLC (exhaustive / simulation / trace validation) and parses its output
  * runs the harness on scenarios and validates the recorded traces
  * accumulates what was covered and writes /verif/evidence/<id>.json
"""
import json, os, re, shutil, subprocess, sys, time, hashlib

ROOT = os.path.dirname(os.path.dirname(os.path.abspath(__file__)))
SPEC = os.path.join(ROOT, "spec")
HARNESS = os.path.join(ROOT, "harness")
WORK = os.path.join(ROOT, "work")
EVID = os.path.join(ROOT, "evidence")
REPO = "/repo"
KF_FILE = os.path.join(ROOT, "known_findings.json")

NCPU = os.cpu_count() or 4


class ToolError(Exception):
    pass


def log(*a):
    print(*a, flush=True)


def sh(cmd, cwd=None, env=None, timeout=None, check=True):
    e = dict(os.environ)
    if env:
        e.update(env)
    p = subprocess.run(cmd, cwd=cwd, env=e, stdout=subprocess.PIPE, stderr=subprocess.STDOUT, text=True, timeout=timeout)
    if check and p.returncode != 0:
        raise ToolError("command failed (%d): %s\n%s" % (p.returncode, " ".join(cmd), p.stdout[-4000:]))
    return p


# ----------------------------------------------------------------------------------------------
# harness build

_built = {}


def build_harness(profile="debug"):
    """profile: 'debug' (overflow checks on) or 'nochecks' (same, overflow checks off)"""
    if profile in _built:
        return _built[profile]
    lock_dst = os.path.join(HARNESS, "Cargo.lock")
    if not os.path.exists(lock_dst):
        shutil.copy(os.path.join(REPO, "Cargo.lock"), lock_dst)
    env = {"CARGO_NET_OFFLINE": "true"}
    args = ["cargo", "build", "--offline", "--quiet"]
    if profile == "nochecks":
        args += ["--profile", "nochecks"]
        out = os.path.join(HARNESS, "target", "nochecks", "rm-verif-harness")
    elif profile == "release":
        args += ["--release"]
        out = os.path.join(HARNESS, "target", "release", "rm-verif-harness")
    else:
        out = os.path.join(HARNESS, "target", "debug", "rm-verif-harness")
    t0 = time.time()
    p = sh(args, cwd=HARNESS, env=env, timeout=1800, check=False)
    if p.returncode != 0:
        raise ToolError("harness build failed:\n" + p.stdout[-6000:])
    log("[build] harness (%s) ready in %.1fs" % (profile, time.time() - t0))
    _built[profile] = out
    return out


# ----------------------------------------------------------------------------------------------
# TLC

JAVA_TRACE_OPTS = "-Xss1g -Dtlc2.tool.queue.IStateQueue=StateDeque"


def write_cfg(path, consts, spec=None, init=None, next_=None, invariants=(), properties=(), postcondition=None, deadlock=None, view=None, constraint=None, subst=None):
    lines = ["CONSTANTS"]
    for k, v in consts.items():
        lines.append("  %s = %s" % (k, tla_val(v)))
    for k, v in (subst or {}).items():
        lines.append("  %s <- %s" % (k, v))
    if spec:
        lines.append("SPECIFICATION %s" % spec)
    if init:
        lines.append("INIT %s" % init)
    if next_:
        lines.append("NEXT %s" % next_)
    if invariants:
        lines.append("INVARIANTS " + " ".join(invariants))
    if properties:
        lines.append("PROPERTIES " + " ".join(properties))
    if postcondition:
        lines.append("POSTCONDITION %s" % postcondition)
    if view:
        lines.append("VIEW %s" % view)
    if constraint:
        lines.append("CONSTRAINT %s" % constraint)
    if deadlock is not None:
        lines.append("CHECK_DEADLOCK %s" % ("TRUE" if deadlock else "FALSE"))
    with open(path, "w") as f:
        f.write("\n".join(lines) + "\n")


def tla_val(v):
    if isinstance(v, bool):
        return "TRUE" if v else "FALSE"
    if isinstance(v, int):
        return str(v)
    if isinstance(v, (set, frozenset, list, tuple)) and not isinstance(v, str):
        return "{" + ", ".join(tla_val(x) for x in (sorted(v) if isinstance(v, (set, frozenset)) else v)) + "}"
    return str(v)


class TlcResult(dict):
    __getattr__ = dict.get


def parse_tlc(text):
    r = TlcResult(ok=False, violated=None, deadlock=False, error=None, generated=0, distinct=0, depth=0, coverage={}, text=text)
    m = re.search(r"(\d+) states generated, (\d+) distinct states found", text)
    if m:
        r["generated"] = int(m.group(1))
        r["distinct"] = int(m.group(2))
    m = re.search(r"The depth of the complete state graph search is (\d+)", text)
    if m:
        r["depth"] = int(m.group(1))
    m = re.search(r"Invariant (\w+) is violated", text)
    if m:
        r["violated"] = m.group(1)
    if re.search(r"Temporal properties were violated|Action property .* is violated", text):
        r["violated"] = r["violated"] or "temporal"
    if "Deadlock reached" in text:
        r["deadlock"] = True
    if "Model checking completed. No error has been found." in text or ("Finished in" in text and "Error:" not in text and "states generated" in text):
        r["ok"] = True
    if not r["ok"] and not r["violated"] and not r["deadlock"]:
        m = re.search(r"Error: (.*)", text)
        r["error"] = m.group(1) if m else "unknown TLC failure"
    # per-action coverage:  <Name line ..., col ... of module M>: distinct:generated
    for m in re.finditer(r"^<(\w+) line \d+, col \d+ to line \d+, col \d+ of module (\w+)[^>]*>: (\d+):(\d+)", text, re.M):
        r["coverage"][m.group(1)] = r["coverage"].get(m.group(1), 0) + int(m.group(4))
    # sub-actions (definitions used inside the top-level actions): an action counts as taken when its last
    # top-level conjunct was evaluated at least once
    sub = {}
    for m in re.finditer(r"^\s+\|*line (\d+), col (\d+) to line \d+, col \d+ of module (\w+): (\d+)", text, re.M):
        sub.setdefault(m.group(3), []).append((int(m.group(1)), int(m.group(2)), int(m.group(4))))
    for mod, lines in sub.items():
        for name, (a, b) in action_ranges(mod).items():
            inside = [x for x in lines if a <= x[0] < b]
            if not inside:
                continue
            if len(set(x[0] for x in inside)) == 1:
                # a one-line definition: its last conjunct is the right-most expression
                cnt = max(inside, key=lambda x: x[1])[2]
            else:
                body = [x for x in inside if x[0] > a] or inside
                mincol = min(x[1] for x in body)
                top = [x for x in body if x[1] == mincol]
                last = max(x[0] for x in top)
                cnt = max(x[2] for x in top if x[0] == last)
            r["coverage"][name] = max(r["coverage"].get(name, 0), cnt)
    return r


_ranges = {}


def action_ranges(module):
    """{definition name: (first line, line of the next definition)} of SPEC/<module>.tla"""
    if module in _ranges:
        return _ranges[module]
    res = {}
    path = os.path.join(SPEC, module + ".tla")
    if os.path.exists(path):
        defs = []
        with open(path) as f:
            for i, line in enumerate(f, 1):
                m = re.match(r"^(\w+)(\([^)]*\))?\s*==", line)
                if m:
                    defs.append((m.group(1), i))
                elif line.startswith("====") or line.startswith("----"):
                    defs.append((None, i))
        for k, (name, ln) in enumerate(defs):
            if name:
                nxt = defs[k + 1][1] if k + 1 < len(defs) else ln + 10000
                res[name] = (ln, nxt)
    _ranges[module] = res
    return res


def tlc(module, cfg_path, name, workers=8, timeout=900, env=None, extra=(), coverage=False, java_opts=None, heap="6g"):
    meta = os.path.join(WORK, "tlc", name)
    shutil.rmtree(meta, ignore_errors=True)
    os.makedirs(meta, exist_ok=True)
    cmd = ["timeout", str(timeout), "tlc", "-workers", str(workers), "-metadir", meta, "-cleanup", "-noGenerateSpecTE"]
    if coverage:
        cmd += ["-coverage", "1"]
    cmd += list(extra) + ["-config", cfg_path, os.path.join(SPEC, module + ".tla")]
    e = {"JAVA_TOOL_OPTIONS": (java_opts or "") + " -Xmx" + heap}
    if env:
        e.update(env)
    t0 = time.time()
    p = sh(cmd, cwd=meta, env=e, check=False)
    out = p.stdout
    with open(os.path.join(meta, "tlc.out"), "w") as f:
        f.write(out)
    r = parse_tlc(out)
    r["wall"] = time.time() - t0
    r["rc"] = p.returncode
    r["out_path"] = os.path.join(meta, "tlc.out")
    if p.returncode == 124:
        r["error"] = "timeout after %ds" % timeout
        r["ok"] = False
    return r


def counterexample(text):
    """parses a TLC error trace into a list of dicts of raw variable text"""
    states = re.split(r"\nState (\d+): ", text)
    res = []
    for i in range(1, len(states), 2):
        body = states[i + 1]
        hdr = body.split("\n", 1)[0]
        act = re.search(r"<(\w+)", hdr)
        # variables are printed as '/\ name = value' possibly spanning several lines
        vals = {}
        cur = None
        for line in body.split("\n")[1:]:
            m = re.match(r"/\\ (\w+) = (.*)", line)
            if m:
                cur = m.group(1)
                vals[cur] = m.group(2)
            elif cur and line.strip() and not line.startswith("Error") and not re.match(r"\d+ states generated", line):
                vals[cur] += " " + line.strip()
            if line.strip() == "":
                cur = None
        res.append({"n": int(states[i]), "action": act.group(1) if act else "", "vars": vals})
    return res


def parse_fun_of_strings(txt):
    """'(0 :> "idle" @@ 1 :> "E1")' -> {0:'idle',1:'E1'};  also '<<"a","b">>' style sequences -> {1:..}"""
    d = {}
    for m in re.finditer(r'(\d+) :> "([^"]*)"', txt):
        d[int(m.group(1))] = m.group(2)
    if not d:
        for i, m in enumerate(re.finditer(r'"([^"]*)"', txt)):
            d[i] = m.group(1)
    return d


# ----------------------------------------------------------------------------------------------
# harness runs + trace validation

CRASH_SIGNALS = {-11: "SIGSEGV", -7: "SIGBUS", -6: "SIGABRT", -4: "SIGILL",
                 98: "HANG (a call into the code under test never returned: no progress for 120 s outside the scheduler's control)",
                 101: "PANIC (the code under test panicked outside any recorded API call: while the object of the scenario was being set up, observed at the end of a run, or torn down)"}


def _harness_once(exe, d, scenarios, name, timeout):
    scn_path = os.path.join(d, name + ".scn.ndjson")
    trace_path = os.path.join(d, name + ".trace.ndjson")
    sum_path = os.path.join(d, name + ".sum.json")
    with open(scn_path, "w") as f:
        for s in scenarios:
            f.write(json.dumps(s) + "\n")
    p = sh([exe, "run", scn_path, trace_path, sum_path], cwd=d, timeout=timeout, check=False)
    return p, trace_path, sum_path


def run_harness(scenarios, name, profile="debug", timeout=1800, crashes=None):
    """runs the scenarios on the real code.  If the process is killed by a memory-fault signal while it executes the code under test, the
       scenario(s) responsible are identified (each scenario re-run in a process of its own, deterministically) and handed back in
       `crashes` (a list the caller provides) -- the remaining scenarios are run and returned as usual."""
    exe = build_harness(profile)
    d = os.path.join(WORK, "runs")
    os.makedirs(d, exist_ok=True)
    t0 = time.time()
    p, trace_path, sum_path = _harness_once(exe, d, scenarios, name, timeout)
    if p.returncode in CRASH_SIGNALS and crashes is not None:
        good = []
        for i, s in enumerate(scenarios):
            p1, _, _ = _harness_once(exe, d, [s], "%s.iso%d" % (name, i), timeout)
            if p1.returncode in CRASH_SIGNALS:
                crashes.append({"scenario": s, "signal": CRASH_SIGNALS[p1.returncode]})
            elif p1.returncode != 0:
                raise ToolError("harness run failed (%d) on %s / %s:\n%s" % (p1.returncode, name, s.get("id"), p1.stdout[-3000:]))
            else:
                good.append(s)
        if not crashes:
            raise ToolError("harness run was killed by %s on %s, but no single scenario reproduces it" % (CRASH_SIGNALS[p.returncode], name))
        p, trace_path, sum_path = _harness_once(exe, d, good, name, timeout)
    if p.returncode != 0:
        raise ToolError("harness run failed (%d) on %s:\n%s" % (p.returncode, name, p.stdout[-3000:]))
    summary = json.load(open(sum_path))
    runs = [json.loads(l) for l in open(trace_path + ".runs")]
    summary["wall"] = time.time() - t0
    return trace_path, runs, summary


def run_free(cases, name, profile="release", timeout=1800):
    """free-running (real threads) histories of the stand-alone containers; returns (trace_path, runs)"""
    exe = build_harness(profile)
    d = os.path.join(WORK, "runs")
    os.makedirs(d, exist_ok=True)
    spec_path = os.path.join(d, name + ".free.json")
    trace_path = os.path.join(d, name + ".trace.ndjson")
    with open(spec_path, "w") as f:
        json.dump({"cases": cases}, f)
    p = sh([exe, "free", spec_path, trace_path], cwd=d, timeout=timeout, check=False)
    if p.returncode != 0:
        raise ToolError("free-running harness failed (%d) on %s:\n%s" % (p.returncode, name, p.stdout[-3000:]))
    runs = [json.loads(l) for l in open(trace_path + ".runs")]
    return trace_path, runs


def run_exec(cases, name, profile="debug", timeout=1800):
    """tokio-driven executor / Uni / Multi life-cycle cases; returns (trace_path, runs)"""
    exe = build_harness(profile)
    d = os.path.join(WORK, "runs")
    os.makedirs(d, exist_ok=True)
    cases_path = os.path.join(d, name + ".cases.ndjson")
    trace_path = os.path.join(d, name + ".trace.ndjson")
    with open(cases_path, "w") as f:
        for c_ in cases:
            f.write(json.dumps(c_) + "\n")
    p = sh([exe, "exec", cases_path, trace_path], cwd=d, timeout=timeout, check=False, env={"RUST_LOG": "off"})
    if p.returncode != 0:
        raise ToolError("executor harness failed (%d) on %s:\n%s" % (p.returncode, name, p.stdout[-3000:]))
    runs = [json.loads(l) for l in open(trace_path + ".runs")]
    return trace_path, runs


def _split_trace(trace_path, runs, parts):
    """splits the trace at run boundaries into <= parts files; returns [(path, first_line, [runs])]"""
    with open(trace_path) as f:
        lines = f.readlines()
    total = len(lines)
    if not runs:
        return [], total
    parts = max(1, min(parts, len(runs)))
    per = (total + parts - 1) // parts
    chunks = []
    start_idx = 0
    cur = []
    cur_start = runs[0]["line"]
    for i, r in enumerate(runs):
        nxt = runs[i + 1]["line"] if i + 1 < len(runs) else total + 1
        cur.append(r)
        if (nxt - cur_start) >= per or i + 1 == len(runs):
            chunks.append((cur_start, nxt, cur))
            cur = []
            cur_start = nxt
    out = []
    for k, (a, b, rs) in enumerate(chunks):
        p = "%s.part%d" % (trace_path, k)
        with open(p, "w") as f:
            f.writelines(lines[a - 1:b - 1])
        out.append((p, a, rs))
    return out, total


def _parse_trace_out(text):
    viol = []
    m = re.search(r'"TRACE-VIOLATIONS"(.*?)(<<\s*"TRACE-OK"|<<\s*"TRACE-MISMATCH")', text, re.S)
    if m:
        for mm in re.finditer(r'<<\s*"(\w+)",\s*(\d+)\s*>>', m.group(1)):
            viol.append((mm.group(1), int(mm.group(2))))
    ok = re.search(r'<<\s*"TRACE-OK",\s*(\d+)\s*>>', text)
    mis = re.search(r'<<\s*"TRACE-MISMATCH",\s*(\d+)', text)
    return viol, (int(ok.group(1)) if ok else None), (int(mis.group(1)) if mis else None)


def validate_trace(trace_path, runs, module, consts, name, parallel=8, timeout=900, max_mismatch_rounds=10):
    """Validates every run of the trace against SPEC/<module>.tla (TraceSpec / TraceAccepted).
    Returns dict(lines, runs_ok, mismatches=[{run, line, event}], violations=[{inv, run, line}], states)"""
    os.makedirs(os.path.join(WORK, "tlc"), exist_ok=True)
    cfg = os.path.join(WORK, "tlc", name + ".cfg")
    write_cfg(cfg, consts, spec="TraceSpec", postcondition="TraceAccepted", deadlock=False)
    chunks, total = _split_trace(trace_path, runs, parallel)
    res = {"lines": total, "runs_ok": 0, "mismatches": [], "violations": [], "states": 0, "errors": [], "unvalidated": []}
    pending = list(chunks)
    rounds = 0
    while pending and rounds < max_mismatch_rounds:
        rounds += 1
        procs = []
        for k, (p, first, rs) in enumerate(pending):
            meta = os.path.join(WORK, "tlc", "%s.r%d.c%d" % (name, rounds, k))
            shutil.rmtree(meta, ignore_errors=True)
            os.makedirs(meta, exist_ok=True)
            cmd = ["timeout", str(timeout), "tlc", "-workers", "1", "-metadir", meta, "-cleanup", "-noGenerateSpecTE", "-config", cfg, os.path.join(SPEC, module + ".tla")]
            e = dict(os.environ)
            e["TRACE"] = p
            e["JAVA_TOOL_OPTIONS"] = JAVA_TRACE_OPTS + " -Xmx2g"
            pr = subprocess.Popen(cmd, cwd=meta, env=e, stdout=subprocess.PIPE, stderr=subprocess.STDOUT, text=True)
            procs.append((pr, p, first, rs, meta))
        nxt = []
        for pr, p, first, rs, meta in procs:
            out = pr.communicate()[0]
            with open(os.path.join(meta, "tlc.out"), "w") as f:
                f.write(out)
            viol, ok_n, mis_at = _parse_trace_out(out)
            m = re.search(r"(\d+) states generated", out)
            if m:
                res["states"] += int(m.group(1))
            if ok_n is None and mis_at is None:
                em = re.search(r"Error: (.*)", out)
                res["errors"].append({"chunk": p, "error": (em.group(1) if em else "no verdict from TLC") + " (see %s)" % os.path.join(meta, "tlc.out")})
                continue

            def run_of(local_line):
                g = first + local_line - 1
                cand = None
                for r in rs:
                    if r["line"] <= g:
                        cand = r
                    else:
                        break
                return cand, g

            bad_runs = set()
            for inv, ll in viol:
                r, g = run_of(ll)
                res["violations"].append({"inv": inv, "run": r, "line": g})
                bad_runs.add((r["scn"], r["run"]))
            if mis_at is not None:
                r, g = run_of(mis_at)
                ev = None
                try:
                    with open(p) as f:
                        for i, line in enumerate(f, 1):
                            if i == mis_at:
                                ev = json.loads(line)
                                break
                except Exception:
                    pass
                res["mismatches"].append({"run": r, "line": g, "event": ev})
                bad_runs.add((r["scn"], r["run"]))
                done_runs = [x for x in rs if x["line"] < r["line"]]
                rest = [x for x in rs if x["line"] > r["line"]]
                res["runs_ok"] += len([x for x in done_runs if (x["scn"], x["run"]) not in bad_runs])
                if rest:
                    # re-validate what follows the mismatching run
                    with open(p) as f:
                        ls = f.readlines()
                    off = rest[0]["line"] - first
                    p2 = p + ".rest%d" % rounds
                    with open(p2, "w") as f:
                        f.writelines(ls[off:])
                    nxt.append((p2, rest[0]["line"], rest))
            else:
                res["runs_ok"] += len([x for x in rs if (x["scn"], x["run"]) not in bad_runs])
        pending = nxt
    if pending:
        # too many runs that the specification cannot follow: what is left is handed back (the caller judges it with the L1-only oracle)
        for (p, first, rs) in pending:
            res["unvalidated"] += rs
    return res


def extract_run(trace_path, run):
    """returns the event lines (parsed) of one run"""
    evs = []
    with open(trace_path) as f:
        for i, line in enumerate(f, 1):
            if i < run["line"]:
                continue
            ev = json.loads(line)
            if i > run["line"] and ev["k"] == "reset":
                break
            evs.append(ev)
    return evs


# ----------------------------------------------------------------------------------------------
# known findings

def load_known_findings():
    if not os.path.exists(KF_FILE):
        return []
    return json.load(open(KF_FILE)).get("findings", [])


def kf_open(kf_id):
    for k in load_known_findings():
        if k.get("id") == kf_id and k.get("status") == "open":
            return k
    return None


# ----------------------------------------------------------------------------------------------
# per-check context: accumulates coverage, verdicts, evidence

class Check:
    def __init__(self, prop, tier, seed):
        self.prop = prop
        self.tier = tier
        self.seed = seed
        self.t0 = time.time()
        self.states = 0
        self.transitions = 0
        self.tv_states = 0
        self.runs_total = 0
        self.schedules = set()
        self.traces = 0
        self.samples = []
        self.violations = []      # (what, replay_path)
        self.known = {}           # kf id -> count
        self.drift = []
        self.tool_errors = []
        self.notes = []
        self.mc_runs = []
        self.conf_runs = []
        self.assumptions = []
        self.extra = {}
        self.dir = os.path.join(WORK, prop)
        shutil.rmtree(os.path.join(self.dir, "violations"), ignore_errors=True)
        os.makedirs(self.dir, exist_ok=True)
        os.makedirs(os.path.join(WORK, "tlc"), exist_ok=True)

    # ---- model checking
    def mc(self, module, cfg_name, consts, subst=None, invariants=(), properties=(), spec=None, init="MCInit", next_="MCNext", deadlock=True,
           expect="pass", workers=8, timeout=900, view=None, constraint=None, required_actions=(), extra=(), heap="6g"):
        name = "%s_%s_%s" % (self.prop, module, cfg_name)
        cfg = os.path.join(WORK, "tlc", name + ".cfg")
        if spec:
            write_cfg(cfg, consts, spec=spec, invariants=invariants, properties=properties, deadlock=deadlock, view=view, constraint=constraint, subst=subst)
        else:
            write_cfg(cfg, consts, init=init, next_=next_, invariants=invariants, properties=properties, deadlock=deadlock, view=view, constraint=constraint, subst=subst)
        r = tlc(module, cfg, name, workers=workers, timeout=timeout, coverage=True, extra=extra, heap=heap)
        self.states += r["distinct"]
        self.transitions += r["generated"]
        rec = {"module": module, "cfg": cfg_name, "consts": {k: tla_val(v) for k, v in consts.items()}, "subst": subst or {}, "distinct": r["distinct"], "generated": r["generated"],
               "depth": r["depth"], "wall_s": round(r["wall"], 1), "expect": expect,
               "result": "pass" if r["ok"] else ("violated:" + r["violated"] if r["violated"] else ("deadlock" if r["deadlock"] else "error"))}
        self.mc_runs.append(rec)
        log("[tlc] %-28s %-10s %9d distinct %10d generated depth %3d  %5.1fs -> %s" % (module, cfg_name, r["distinct"], r["generated"], r["depth"], r["wall"], rec["result"]))
        if r["error"]:
            self.tool_errors.append("TLC %s/%s: %s (%s)" % (module, cfg_name, r["error"], r["out_path"]))
            return r
        if r["ok"]:
            missing = [a for a in required_actions if r["coverage"].get(a, 0) == 0]
            if missing:
                self.tool_errors.append("vacuity guard: %s/%s never took action(s) %s" % (module, cfg_name, missing))
            rec["actions_covered"] = len([a for a, c in r["coverage"].items() if c > 0])
        if expect == "pass" and not r["ok"]:
            # a counterexample in the model is a claim about the code only once replayed (see DESIGN.md section 6)
            self.notes.append("MODEL-COUNTEREXAMPLE %s/%s: %s" % (module, cfg_name, rec["result"]))
            self.tool_errors.append("the model %s/%s fails on its own (%s, see %s): the specification and the code under test disagree before any execution was judged" % (module, cfg_name, rec["result"], r["out_path"]))
        return r

    # ---- conformance
    def conform(self, scenarios, name, module, consts, profile="debug", parallel=8, free_cases=None, exec_cases=None):
        if exec_cases is not None:
            trace, runs = run_exec(exec_cases, "%s_%s" % (self.prop, name))
            summ = {"scenarios": [{"mode": "gated tokio driver", "cases": len(exec_cases)}]}
        elif free_cases is not None:
            trace, runs = run_free(free_cases, "%s_%s" % (self.prop, name))
            summ = {"scenarios": [{"id": x.get("id"), "mode": "free-running", "threads": x.get("threads"), "rounds": x.get("rounds"), "runs": x.get("runs")} for x in free_cases]}
        else:
            crashes = []
            trace, runs, summ = run_harness(scenarios, "%s_%s" % (self.prop, name), profile, crashes=crashes)
            for cr in crashes:
                # the process executing the real code died of a memory fault: no property holds on such an execution
                what = "the real code never returned: %s, scenario %s" % (cr["signal"], cr["scenario"].get("id")) if str(cr["signal"]).startswith("HANG") else \
                    "the real code panicked: %s, scenario %s" % (cr["signal"], cr["scenario"].get("id")) if str(cr["signal"]).startswith("PANIC") else \
                    "the real code crashed with %s while executing scenario %s (memory fault inside the code under test)" % (cr["signal"], cr["scenario"].get("id"))
                self.violation(what,
                               {"scenario": cr["scenario"], "run": None, "events": [], "module": module, "consts": {k: tla_val(q) for k, q in consts.items()}, "invariant": "NoCrash", "crash": cr["signal"]})
        v = validate_trace(trace, runs, module, consts, "%s_%s_%s" % (self.prop, name, module), parallel=parallel)
        # the trace specification is itself explored by TLC: one state / one transition per matched event of every recorded behaviour
        self.tv_states += v["states"]
        self.traces += v["runs_ok"]
        self.runs_total += len(runs)
        self.schedules.update((r["scn"], tuple(r["choices"])) for r in runs)
        for e in v["errors"]:
            self.tool_errors.append("trace validation %s: %s" % (name, e))
        if v["unvalidated"]:
            self.tool_errors.append("UNVALIDATED[%s]: %d runs were left unvalidated by %s (too many runs it cannot follow)" % (name, len(v["unvalidated"]), module))
        rec = {"name": name, "module": module, "profile": profile, "runs": len(runs), "events": v["lines"], "runs_ok": v["runs_ok"],
               "mismatches": len(v["mismatches"]), "l1_violations": len(v["violations"]), "harness": summ["scenarios"]}
        self.conf_runs.append(rec)
        log("[conf] %-22s %-20s runs %6d events %8d ok %6d mismatch %3d l1-viol %3d" % (name, module, len(runs), v["lines"], v["runs_ok"], len(v["mismatches"]), len(v["violations"])))
        return trace, runs, v

    def sample(self, s):
        if len(self.samples) < 6:
            self.samples.append(s)

    def violation(self, what, replay):
        if len(self.violations) >= 40:
            # enough replay files: further violations of this run are only counted
            self.extra["violations_not_written"] = self.extra.get("violations_not_written", 0) + 1
            return None
        d = os.path.join(self.dir, "violations")
        os.makedirs(d, exist_ok=True)
        h = hashlib.sha1(json.dumps(replay, sort_keys=True).encode()).hexdigest()[:10]
        path = os.path.join(d, "%s_%s.json" % (self.prop, h))
        replay = dict(replay)
        replay["property"] = self.prop
        replay["what"] = what
        with open(path, "w") as f:
            json.dump(replay, f)
        self.violations.append((what, path))
        return path

    def known_finding(self, kf_id, what):
        self.known.setdefault(kf_id, {"count": 0, "what": what})
        self.known[kf_id]["count"] += 1

    def finish(self, level_note_extra=None):
        wall = time.time() - self.t0
        cov = {
            "states": int(self.states + self.tv_states),
            "transitions": int(self.transitions + self.tv_states),
            "states_exhaustive_model_checking": int(self.states),
            "transitions_exhaustive_model_checking": int(self.transitions),
            "states_trace_validation": int(self.tv_states),
            "evaluations": int(self.runs_total),
            "distinct_nontrivial": int(len(self.schedules)),
            "rule": "one evaluation = one execution of the real code under the deterministic scheduler (or one free-running history); distinct = different (scenario, schedule) pairs; "
                    "every execution runs at least two API operations, so all are non-trivial",
            "traces_validated_against_impl": int(self.traces),
            "samples": self.samples if self.samples else [{"note": "no sample recorded"}],
            "model_checking_runs": self.mc_runs,
            "conformance_runs": self.conf_runs,
            "known_findings_reproduced": {k: v["count"] for k, v in self.known.items()},
            "drift": self.drift,
            "notes": self.notes,
        }
        cov.update(self.extra)
        ev = {
            "property_id": self.prop,
            "tier": self.tier,
            "seed": int(self.seed),
            "level": "model_checking",
            "coverage": cov,
            "assumptions": self.assumptions + [
                "sequential consistency: TLC interleaves atomic actions and the deterministic scheduler runs one thread at a time (weak-memory effects are out of scope)",
                "a scheduling point exists at every shimmed atomic operation and every verif::yield_point of the crate; code between two points is atomic for the harness",
                "small scope: exhaustive only within the constants listed per model-checking run",
            ],
            "wall_s": round(wall, 2),
            "violations": len(self.violations),
        }
        os.makedirs(EVID, exist_ok=True)
        with open(os.path.join(EVID, self.prop + ".json"), "w") as f:
            json.dump(ev, f, indent=1)
        for d in self.drift:
            log("DRIFT property=%s %s" % (self.prop, d))
        for k, v in self.known.items():
            log("KNOWN-FINDING: property=%s %s -- %s (reproduced %d times in this run)" % (self.prop, k, v["what"], v["count"]))
        if self.tool_errors:
            for e in self.tool_errors[:8]:
                log("TOOL-ERROR property=%s %s" % (self.prop, str(e)[:1500]))
            if len(self.tool_errors) > 8:
                log("TOOL-ERROR property=%s ... and %d more" % (self.prop, len(self.tool_errors) - 8))
        if self.violations:
            seen = set()
            for what, path in self.violations:
                if path in seen:
                    continue
                seen.add(path)
                log("VIOLATION property=%s replay=%s   (%s)" % (self.prop, path, what))
            log("[done] %s %s: %d violation(s), %.1fs" % (self.prop, self.tier, len(seen), wall))
            return 1
        if self.tool_errors:
            log("[done] %s %s: tool error(s), %.1fs" % (self.prop, self.tier, wall))
            return 2
        log("[done] %s %s: holds on everything explored (%d states, %d traces validated), %.1fs" % (self.prop, self.tier, self.states, self.traces, wall))
        return 0
