"""Family-specific glue for the specification -> implementation direction (vf/graph.py): how a harness script is written
as a TLA+ Script of the MC_* wrapper, and which trace specification / L1 oracle judges the replayed executions."""
import json
from .core import *
from .queues import *
from . import graph

U32 = 1 << 32


def ring_fmt(o):
    n = o["op"]
    if n == "enq":
        return "E(%d)" % o["v"]
    if n == "deq":
        return "D"
    if n == "len":
        return "L"
    if n in ("alloc", "alloc_with"):
        return "A"
    if n in ("free", "free_ref"):
        return "FrL" if o.get("last") else "Fr"
    if n == "reserve":
        return "R"
    if n == "fill":
        return "F(%d, %d)" % (o["i"] + 1, o["v"])
    if n == "pub_idx":
        return "P(%d)" % (o["i"] + 1)
    if n == "unleak_idx":
        return "U(%d)" % (o["i"] + 1)
    raise ToolError("ring_fmt: no TLA+ form for op %s" % n)


def cover_ring(c, name, kind, threads, n=2, origin=0, pool=False, relax=None, max_paths=None):
    """kind: 'atomic' | 'fullsync'.  `origin` is the model's counter origin (0..W-1, W=8); the real ring starts at 2^32-8+origin
       (or at 0 for origin 0), so the real counters wrap exactly where the model's do."""
    from . import checks
    atomic = kind == "atomic"
    base = "MC_RingAtomic" if atomic else "MC_RingFullSync"
    trace_module = "Trace_RingAtomic" if atomic else "Trace_RingFullSync"
    consts_fn = checks.ring_consts if atomic else checks.fs_consts
    sut = ("pool_" if pool else "ring_") + kind
    mode = "bag" if pool else "fifo"
    kf = kf_open(KF_SPURIOUS_EMPTY) is not None
    mc = consts_fn(n=n, w=8 if n == 2 else 16, procs=len(threads), origins=[origin], relax=(kf if atomic else False), prefill=pool, mode=mode)
    w = 8 if n == 2 else 16
    real_origin = 0 if origin == 0 else U32 - w + origin
    sc = scn("%s_o%d" % (name, origin), sut, n, threads, None, origin=real_origin)
    tc = consts_fn(n=n, w=64, procs=len(threads), origins=(0,), relax=False, prefill=pool, mode=mode, checks=True)
    inv = (checks.RING_INV if atomic else ["InvBounds", "InvLinearizable", "InvContents", "InvLockOwner"]) + (["InvOneOwner"] if pool else [])

    def jf(scns, nm, trace, runs, v):
        judge(c, scns, nm, trace, runs, v, trace_module, tc, allow_relax=True)
    return graph.replay_cover(c, "%s_o%d" % (name, origin), base, graph.tla_script(threads, ring_fmt), mc, sc, trace_module, tc, invariants=inv, judge_fn=jf, max_paths=max_paths)


def stack_fmt(o):
    return "Pu(%d)" % o["v"] if o["op"] == "push" else "Po"


def cover_stack(c, name, threads, max_paths=None):
    from . import checks
    mc = {"N": 2, "Procs": list(range(len(threads)))}
    sc = scn(name, "stack_atomic", 2, threads, None)
    tc = {"N": 2, "Procs": [0, 1, 2, 3]}

    def jf(scns, nm, trace, runs, v):
        judge(c, scns, nm, trace, runs, v, "Trace_SpinStack", tc, allow_relax=False, l1_module="Trace_LinQueue", l1_consts=checks.lin_consts(2, 4, "lifo"))
    return graph.replay_cover(c, name, "MC_SpinStack", graph.tla_script(threads, stack_fmt), mc, sc, "Trace_SpinStack", tc,
                              invariants=["InvMutex", "InvBounds", "InvLinearizable", "InvContents"], step_expr="(Step(p) /\\ UNCHANGED opi)", judge_fn=jf, max_paths=max_paths)


def handle_fmt(o):
    n = o["op"]
    if n == "clone":
        return 'Cl("%s", "%s")' % (o["from"], o["to"])
    if n == "incr":
        return 'In("%s", <<%s>>)' % (o["from"], ", ".join('"%s"' % x for x in o["tos"]))
    if n == "drop":
        return 'Dr("%s")' % o["h"]
    if n == "refs":
        return 'Rf("%s")' % o["h"]
    raise ToolError("handle_fmt: no TLA+ form for op %s" % n)


def cover_handles(c, name, pre, threads, judge_fn, max_paths=None):
    """OgreArc reference counting: `pre` creates handles a and b (new_with_clones) before the threads start (MCCreate in the model)"""
    from . import checks
    names = ['"a"', '"b"', '"c"', '"d"', '"e"']
    mc = {"Procs": list(range(len(threads))), "Names": names}
    sc = checks.hscn(name, pre, threads, None)
    tc = {"Procs": [0, 1, 2], "Names": names}
    return graph.replay_cover(c, name, "MC_OgreArc", graph.tla_script(threads, handle_fmt), mc, sc, "Trace_OgreArc", tc,
                              invariants=["InvNotFreedWhileHeld", "InvCtlNotUsedAfterFree", "InvRefCount", "InvCounter", "InvFreedAtEnd"],
                              step_expr="(Step(p) /\\ UNCHANGED opi)", extra_next="MCCreate \\/ ", judge_fn=judge_fn, max_paths=max_paths, strict=False)


def cover_avg(c, name, threads, judge_fn, max_paths=None):
    """the incremental average: measurements are symbolic in the model (small integers), floats in the harness"""
    k = [0]

    def fmt(o):
        if o["op"] == "probe":
            return "Pr"
        k[0] += 1
        return "I(%d)" % k[0]
    mc = {"Procs": list(range(len(threads)))}
    sc = {"id": name, "sut": "inc_avg", "n": 2, "s": 1, "origin": 0, "record_ops": True, "threads": [{"name": "t%d" % i, "ops": ops} for i, ops in enumerate(threads)]}
    tc = {"Procs": [0, 1, 2, 3]}
    return graph.replay_cover(c, name, "MC_IncAvg", graph.tla_script(threads, fmt), mc, sc, "Trace_IncAvg", tc,
                              invariants=["InvCount", "InvNoLostUpdate", "InvProbePair"], step_expr="(Step(p) /\\ UNCHANGED opi)",
                              ret_pred='pc[p] \\in {"ret", "pret"}', judge_fn=judge_fn, max_paths=max_paths)


def unichan_fmt(o):
    n = o["op"]
    if n == "send":
        return "S(%d)" % o["v"]
    if n == "drive":
        return "Dv(%d, %d)" % (o["s"], o.get("max", 9))
    if n == "cancel_all":
        return "X"
    if n == "reserve":
        return "Rs"
    if n == "fill":
        return "Fi(%d, %d)" % (o["i"] + 1, o["v"])
    if n == "send_reserved":
        return "Sr(%d)" % (o["i"] + 1)
    if n == "cancel_reserved":
        return "Cr(%d)" % (o["i"] + 1)
    if n == "close":
        return "Cl"
    if n == "drop_stream":
        return "Dr(%d)" % o["s"]
    raise ToolError("unichan_fmt: no TLA+ form for op %s" % n)


def cover_unichan(c, name, threads, l1_checks, n=4, maxs=1, max_paths=None,
                  invariants=("InvLinearizable", "InvBounds", "InvChanTypes", "InvWakersLock", "InvNoLoss", "InvCancelEnds")):
    """the movable atomic Uni channel: every transition of the UniChan state graph (ring + wake / waker-registration / cancel protocol + the
       executor task) is replayed into the real channel; each replay is validated operation by operation against UniChan (L2) and judged by
       the L1 specification Trace_AbsUni with the verdicts of the calling property"""
    from .chan import cscn, uni_consts, judge_chan
    kf = kf_open(KF_SPURIOUS_EMPTY) is not None
    procs = list(range(len(threads)))
    mc = {"N": n, "W": 4 * n, "Procs": procs, "Origins": [0], "OverflowChecks": True, "RelaxEmpty": kf, "Prefill": False, "Mode": '"fifo"', "MaxS": maxs}
    tc = {"N": n, "W": 64, "Procs": procs, "Origins": [0], "OverflowChecks": True, "RelaxEmpty": kf, "Prefill": False, "Mode": '"fifo"', "MaxS": maxs}
    sc = cscn(name, "uni_move_atomic", n, maxs, threads, None, pre_streams=maxs, payload="u64")
    sc["record_ops"] = True

    def jf(scns, nm, trace, runs, v):
        for x in v["violations"]:
            s2 = dict([q for q in scns if q["id"] == x["run"]["scn"]][0])
            s2["explore"] = {"mode": "replay", "schedules": [x["run"]["choices"]]}
            c.violation("%s (UniChan) violated by the real code (scenario %s, run %d)" % (x["inv"], x["run"]["scn"], x["run"]["run"]),
                        {"scenario": s2, "run": x["run"], "events": extract_run(trace, x["run"]), "module": "Trace_UniChan", "consts": {k: tla_val(q) for k, q in tc.items()}, "invariant": x["inv"]})
        # every replayed execution is judged by the L1 oracle below, whether or not the L2 specification could follow it
        c.tool_errors[:] = [e for e in c.tool_errors if not str(e).startswith("UNVALIDATED[%s]" % nm)]
        l1c = uni_consts(n, len(threads), "uni_move_atomic", l1_checks, relax=kf)
        v1 = validate_trace(trace, runs, "Trace_AbsUni", l1c, "%s_%s_l1" % (c.prop, nm), parallel=8)
        c.tv_states += v1["states"]
        for e in v1["errors"]:
            c.tool_errors.append("L1 validation of %s: %s" % (nm, e))
        log("[conf] %-22s %-20s runs %6d (L1 verdicts of the replayed cover) ok %6d mismatch %3d l1-viol %3d" % (nm, "Trace_AbsUni", len(runs), v1["runs_ok"], len(v1["mismatches"]), len(v1["violations"])))
        judge_chan(c, scns, nm, trace, runs, v1, "Trace_AbsUni", l1c)
    return graph.replay_cover(c, name, "MC_UniChan", graph.tla_script(threads, unichan_fmt), mc, sc, "Trace_UniChan", tc, invariants=list(invariants),
                              step_expr=None, judge_fn=jf, max_paths=max_paths)


def multichan_fmt(idmap):
    """harness operations -> TLA+ script operations of MC_MultiChan; `idmap`: harness stream number -> channel stream id"""
    def sid(h):
        return idmap[h] if idmap else h

    def fmt(o):
        n = o["op"]
        if n == "send":
            return "S(%d)" % o["v"]
        if n == "drive":
            return "Dv(%d, %d)" % (sid(o["s"]), o["max"])
        if n == "poll":
            return "Pl(%d)" % sid(o["s"])
        if n == "cancel_all":
            return "X"
        if n == "create":
            return "Cr"
        if n == "drop_stream":
            return "Dp(%d)" % sid(o["s"])
        if n == "close":
            return "Cl"
        raise ToolError("multichan_fmt: no TLA+ form for op %s" % n)
    return fmt


MULTICHAN_INV = ("InvRingBounds", "InvLocks", "InvNeverFull", "NoPanic", "InvRunningCount", "InvListInSync")
MULTICHAN_DELIVERY = ("InvNoDuplicates", "InvProducerOrder", "InvNothingOld", "InvAllDelivered")


def multichan_consts(threads, initial, maxs, n, w):
    return {"N": n, "W": w, "MaxS": maxs, "Procs": list(range(len(threads)))}


def judge_multichan(c, l1_checks, n, nthreads):
    from .chan import multi_consts, judge_chan
    tc = {"N": n, "W": 64}

    def jf(scns, nm, trace, runs, v):
        for x in v["violations"]:
            s2 = dict([q for q in scns if q["id"] == x["run"]["scn"]][0])
            s2["explore"] = {"mode": "replay", "schedules": [x["run"]["choices"]]}
            c.violation("%s (MultiChan) violated by the real code (scenario %s, run %d)" % (x["inv"], x["run"]["scn"], x["run"]["run"]),
                        {"scenario": s2, "run": x["run"], "events": extract_run(trace, x["run"]), "module": "Trace_MultiChan", "consts": {}, "invariant": x["inv"]})
        # every execution is judged by the L1 oracle below, whether or not the L2 specification could follow it
        c.tool_errors[:] = [e for e in c.tool_errors if not str(e).startswith("UNVALIDATED[%s]" % nm)]
        l1c = multi_consts(n, nthreads, l1_checks)
        v1 = validate_trace(trace, runs, "Trace_AbsMulti", l1c, "%s_%s_l1" % (c.prop, nm), parallel=8)
        c.tv_states += v1["states"]
        for e in v1["errors"]:
            c.tool_errors.append("L1 validation of %s: %s" % (nm, e))
        log("[conf] %-22s %-20s runs %6d (L1 verdicts of the same executions) ok %6d mismatch %3d l1-viol %3d" % (nm, "Trace_AbsMulti", len(runs), v1["runs_ok"], len(v1["mismatches"]), len(v1["violations"])))
        judge_chan(c, scns, nm, trace, runs, v1, "Trace_AbsMulti", l1c)
    return jf


def cover_multichan(c, name, threads, l1_checks, initial=2, maxs=2, n=4, idmap=None, max_paths=None, invariants=MULTICHAN_INV + MULTICHAN_DELIVERY + ("InvNoLostWakeup", "InvCancelEnds"),
                    constraint=None, kind="arc"):
    """the Arc-based atomic Multi channel: every transition of the MultiChan state graph (one ring per listener + the fan-out loop + the streams
       manager's create / drop / list rebuild / wake / waker-registration / cancel protocol + the executor tasks) is replayed into the real
       channel; each replay is validated scheduling point by scheduling point against MultiChan (L2) and judged by Trace_AbsMulti (L1)"""
    from .chan import cscn
    procs = list(range(len(threads)))
    mc = {"N": n, "W": 4 * n, "MaxS": maxs, "Procs": procs, "Initial": set(range(initial)), "Kind": '"%s"' % kind}
    tc = {"N": n, "W": 64, "MaxS": maxs, "Procs": procs, "Kind": '"%s"' % kind}
    sc = cscn(name, "multi_arc_atomic" if kind == "arc" else "multi_ogre_atomic", n, maxs, threads, None, pre_streams=initial, payload="u64")
    sc["record_ops"] = True
    return graph.replay_cover(c, name, "MC_MultiChan", graph.tla_script(threads, multichan_fmt(idmap)), mc, sc, "Trace_MultiChan", tc, invariants=list(invariants),
                              step_expr=None, judge_fn=judge_multichan(c, l1_checks, n, len(threads)), max_paths=max_paths, constraint=constraint)


def conform_multichan(c, name, scns, l1_checks, maxs=2, n=4, nthreads=4, kind="arc"):
    """implementation -> specification at L2: explored (DFS / random) executions of the real Arc-based atomic Multi channel with every scheduling
       point recorded, validated against MultiChan and judged by Trace_AbsMulti"""
    for s in scns:
        s["record_ops"] = True
    tc = {"N": n, "W": 64, "MaxS": maxs, "Procs": list(range(nthreads)), "Kind": '"%s"' % kind}
    trace, runs, v = c.conform(scns, name, "Trace_MultiChan", tc)
    if v["mismatches"]:
        c.drift.append("%s: %d run(s) of the real channel are not behaviours of MultiChan (first unmatched event: %s)" % (name, len(v["mismatches"]), json.dumps(v["mismatches"][0]["event"])[:300]))
    if v["unvalidated"]:
        c.tool_errors[:] = [e for e in c.tool_errors if not str(e).startswith("UNVALIDATED[%s]" % name)]
    judge_multichan(c, l1_checks, n, nthreads)(scns, name, trace, runs, v)
    return trace, runs, v
