"""Family-specific glue for the specification -> implementation direction (vf/graph.py): how a harness script is written
as a TLA+ Script of the MC_* wrapper, and which trace specification / L1 oracle judges the replayed executions."""
import json
from .core import *
from .queues import *
from . import graph

U32 = 1 << 32


def ring_fmt(o):
    n = o["op"]
    if n == "enq":
        return "E(%d)" % o["v"]
    if n == "deq":
        return "D"
    if n == "len":
        return "L"
    if n in ("alloc", "alloc_with"):
        return "A"
    if n in ("free", "free_ref"):
        return "FrL" if o.get("last") else "Fr"
    if n == "reserve":
        return "R"
    if n == "fill":
        return "F(%d, %d)" % (o["i"] + 1, o["v"])
    if n == "pub_idx":
        return "P(%d)" % (o["i"] + 1)
    if n == "unleak_idx":
        return "U(%d)" % (o["i"] + 1)
    raise ToolError("ring_fmt: no TLA+ form for op %s" % n)


def cover_ring(c, name, kind, threads, n=2, origin=0, pool=False, relax=None, max_paths=None):
    """kind: 'atomic' | 'fullsync'.  `origin` is the model's counter origin (0..W-1, W=8); the real ring starts at 2^32-8+origin
       (or at 0 for origin 0), so the real counters wrap exactly where the model's do."""
    from . import checks
    atomic = kind == "atomic"
    base = "MC_RingAtomic" if atomic else "MC_RingFullSync"
    trace_module = "Trace_RingAtomic" if atomic else "Trace_RingFullSync"
    consts_fn = checks.ring_consts if atomic else checks.fs_consts
    sut = ("pool_" if pool else "ring_") + kind
    mode = "bag" if pool else "fifo"
    kf = kf_open(KF_SPURIOUS_EMPTY) is not None
    mc = consts_fn(n=n, w=8 if n == 2 else 16, procs=len(threads), origins=[origin], relax=(kf if atomic else False), prefill=pool, mode=mode)
    w = 8 if n == 2 else 16
    real_origin = 0 if origin == 0 else U32 - w + origin
    sc = scn("%s_o%d" % (name, origin), sut, n, threads, None, origin=real_origin)
    tc = consts_fn(n=n, w=64, procs=len(threads), origins=(0,), relax=False, prefill=pool, mode=mode, checks=True)
    inv = (checks.RING_INV if atomic else ["InvBounds", "InvLinearizable", "InvContents", "InvLockOwner"]) + (["InvOneOwner"] if pool else [])

    def jf(scns, nm, trace, runs, v):
        judge(c, scns, nm, trace, runs, v, trace_module, tc, allow_relax=True)
    return graph.replay_cover(c, "%s_o%d" % (name, origin), base, graph.tla_script(threads, ring_fmt), mc, sc, trace_module, tc, invariants=inv, judge_fn=jf, max_paths=max_paths)


def stack_fmt(o):
    return "Pu(%d)" % o["v"] if o["op"] == "push" else "Po"


def cover_stack(c, name, threads, max_paths=None):
    from . import checks
    mc = {"N": 2, "Procs": list(range(len(threads)))}
    sc = scn(name, "stack_atomic", 2, threads, None)
    tc = {"N": 2, "Procs": [0, 1, 2, 3]}

    def jf(scns, nm, trace, runs, v):
        judge(c, scns, nm, trace, runs, v, "Trace_SpinStack", tc, allow_relax=False, l1_module="Trace_LinQueue", l1_consts=checks.lin_consts(2, 4, "lifo"))
    return graph.replay_cover(c, name, "MC_SpinStack", graph.tla_script(threads, stack_fmt), mc, sc, "Trace_SpinStack", tc,
                              invariants=["InvMutex", "InvBounds", "InvLinearizable", "InvContents"], step_expr="(Step(p) /\\ UNCHANGED opi)", judge_fn=jf, max_paths=max_paths)


def handle_fmt(o):
    n = o["op"]
    if n == "clone":
        return 'Cl("%s", "%s")' % (o["from"], o["to"])
    if n == "incr":
        return 'In("%s", <<%s>>)' % (o["from"], ", ".join('"%s"' % x for x in o["tos"]))
    if n == "drop":
        return 'Dr("%s")' % o["h"]
    if n == "refs":
        return 'Rf("%s")' % o["h"]
    raise ToolError("handle_fmt: no TLA+ form for op %s" % n)


def cover_handles(c, name, pre, threads, judge_fn, max_paths=None):
    """OgreArc reference counting: `pre` creates handles a and b (new_with_clones) before the threads start (MCCreate in the model)"""
    from . import checks
    names = ['"a"', '"b"', '"c"', '"d"', '"e"']
    mc = {"Procs": list(range(len(threads))), "Names": names}
    sc = checks.hscn(name, pre, threads, None)
    tc = {"Procs": [0, 1, 2], "Names": names}
    return graph.replay_cover(c, name, "MC_OgreArc", graph.tla_script(threads, handle_fmt), mc, sc, "Trace_OgreArc", tc,
                              invariants=["InvNotFreedWhileHeld", "InvCtlNotUsedAfterFree", "InvRefCount", "InvCounter", "InvFreedAtEnd"],
                              step_expr="(Step(p) /\\ UNCHANGED opi)", extra_next="MCCreate \\/ ", judge_fn=judge_fn, max_paths=max_paths, strict=False)


def cover_avg(c, name, threads, judge_fn, max_paths=None):
    """the incremental average: measurements are symbolic in the model (small integers), floats in the harness"""
    k = [0]

    def fmt(o):
        if o["op"] == "probe":
            return "Pr"
        k[0] += 1
        return "I(%d)" % k[0]
    mc = {"Procs": list(range(len(threads)))}
    sc = {"id": name, "sut": "inc_avg", "n": 2, "s": 1, "origin": 0, "record_ops": True, "threads": [{"name": "t%d" % i, "ops": ops} for i, ops in enumerate(threads)]}
    tc = {"Procs": [0, 1, 2, 3]}
    return graph.replay_cover(c, name, "MC_IncAvg", graph.tla_script(threads, fmt), mc, sc, "Trace_IncAvg", tc,
                              invariants=["InvCount", "InvNoLostUpdate", "InvProbePair"], step_expr="(Step(p) /\\ UNCHANGED opi)",
                              ret_pred='pc[p] \\in {"ret", "pret"}', judge_fn=judge_fn, max_paths=max_paths)
