"""Generates /verif/MANIFEST.json from the table below (run: bin/check manifest)"""
import json, os, subprocess
from .core import ROOT

TRUSTED = ("TLC 1.8.0 + CommunityModules; the `verif` atomics shim of /repo (src/verif.rs); the harness' deterministic scheduler and "
           "call-site -> (function, field) mapper; sequential consistency (one thread runs at a time, TLC interleaves atomic actions); "
           "small scope: exhaustive only for the constants listed in the evidence file")

CLAIMED = {
    "C02": dict(
        text="TLC exhaustively checks the implementation-shaped specs RingAtomic / RingFullSync (one action per atomic operation, counters modulo W, every origin incl. wrap) "
             "against the LinQueue on-line linearizability monitor (atomic bounded FIFO + the capacity rule of the statement); the specs are bound to the real AtomicMove / FullSyncMove / "
             "Uni channels by trace validation: thousands of executions of the real code under a deterministic scheduler (preemption-bounded DFS + random schedules, counters started "
             "at 0 and just below 2^32) are replayed through the trace specs by TLC, each atomic operation with operands and result, and the L1 monitor is evaluated on the real histories.",
        design="7 (C02), 4, 5",
        technique="TLA+ L2 spec + LinQueue monitor checked by TLC; trace validation of real executions (deterministic scheduler) against the spec"),
    "C13": dict(
        text="TLC exhaustively checks the pool allocator's free list (RingAtomic / RingFullSync started pre-filled with the ids 0..POOL_SIZE-1, every counter origin incl. wrap) "
             "under multi-threaded alloc/dealloc scripts with exhaust-and-refill cycles against the LinQueue monitor in 'bag' mode (an allocation returns a free id, never an owned one; "
             "fails only if all slots are owned or in transit at some instant) plus the invariant InvOneOwner; executions of the real AllocatorAtomicArray / AllocatorFullSyncArray "
             "(alloc_ref, alloc_with, dealloc_id, dealloc_ref) under the deterministic scheduler are validated by TLC against the same specs, and the id<->reference bijection is compared on the real pointers.",
        design="7 (C13), 4, 5",
        technique="TLA+ L2 spec + LinQueue(bag) monitor checked by TLC; trace validation of real executions (deterministic scheduler) against the spec"),
    "C18": dict(
        text="TLC exhaustively checks SpinStack (the atomic-flag stack: swap / each plain access of the critical region / store as separate actions) and the rings under the two non-blocking queues "
             "against the LinQueue monitor (lifo / fifo, 'full' and 'empty' answers justified at an instant of the call); executions of the real atomic-flag stack under the deterministic scheduler are "
             "validated against SpinStack, those of the two NonBlockingQueues against the L1 monitor; all four containers (incl. the parking-lot stack) are additionally run free on 16 cores, "
             "call/return stamped from one global counter, and the merged histories are checked for linearizability by TLC.",
        design="7 (C18), 4, 5",
        technique="TLA+ L2 spec (SpinStack, rings) + LinQueue(lifo/fifo) monitor checked by TLC; trace validation of deterministic-scheduler and free-running executions of the real containers"),
    "C15": dict(
        text="The L1 oracles contain no sequence counters, so a history accepted from every origin is origin independence. TLC checks RingAtomic / RingFullSync / the pool free list from *every* origin of the "
             "counter modulus W (wrap inside every run) with and without overflow checks; the real rings, pool allocators and reservation API run the same single-thread histories (send, receive, reserve, "
             "send-reserved, cancel, length, teardown with leftovers) from origin 0 and from each origin in a window around 2^32 (verif::set_sequence_origin), in a debug (overflow checks) and a nochecks build; "
             "every run is validated by TLC against the trace specs, results are compared operation by operation with origin 0, panics are an L1 verdict; plus concurrent schedules started right below the wrap.",
        design="7 (C15), 4, 5",
        technique="TLA+ L2 specs from every counter origin checked by TLC; trace validation + origin-0 differential of real executions started around the 32-bit wrap (debug and nochecks builds)"),
}

NOT_YET = "check not built yet (work in progress; see DESIGN.md section 12)"


def generate():
    props = [json.loads(l)["id"] for l in open(os.path.join(ROOT, "properties.jsonl"))]
    commits = subprocess.run(["git", "-C", "/repo", "log", "--format=%h %s"], stdout=subprocess.PIPE, text=True).stdout.strip().split("\n")
    hook_commits = [c.split()[0] for c in commits if c.split(" ", 1)[1].startswith("verif:")]
    checks = []
    for p in props:
        if p in CLAIMED:
            c = CLAIMED[p]
            checks.append({
                "property_id": p,
                "quick_cmd": "bin/check %s --tier quick" % p,
                "thorough_cmd": "bin/check %s --tier thorough" % p,
                "evidence_file": "/verif/evidence/%s.json" % p,
                "replay_cmd_template": "bin/check replay {path}",
                "engine": "tlc+harness",
                "level_claimed": {"category": "model_checking", "text": c["text"], "design_ref": "DESIGN.md section " + c["design"]},
                "level_note": TRUSTED,
                "technique": c["technique"],
            })
    m = {
        "version": 1,
        "setup_cmd": "bin/setup",
        "hooks": {
            "guard": "verif (cargo feature of reactive-mutiny, off by default)",
            "enable": "the harness depends on /repo with features = [\"verif\"] (harness/Cargo.toml); hooks report to the harness only on threads it registers",
            "baseline_off_cmd": "cd /repo && cargo test --workspace --no-fail-fast --offline",
            "source_commits": hook_commits,
            "add_only": True,
        },
        "engines": [{"name": "tlc+harness", "path": "/verif/bin/check", "serves_properties": sorted(CLAIMED.keys()),
                     "kind_free_text": "explicit TLA+ specifications (spec/*.tla) model-checked by TLC; Rust harness (harness/) executing the real crate under a deterministic scheduler; TLC trace validation of the recorded executions"}],
        "checks": checks,
        "notes": "exit 0 = held on everything explored (KNOWN-FINDING lines for recorded defects listed in known_findings.json), 1 = VIOLATION line printed, 2 = tool error (TOOL-ERROR line)",
        "not_applicable": [{"property_id": p, "reason": NOT_YET} for p in props if p not in CLAIMED],
    }
    with open(os.path.join(ROOT, "MANIFEST.json"), "w") as f:
        json.dump(m, f, indent=1)
    print("MANIFEST.json: %d checks, %d not applicable" % (len(checks), len(m["not_applicable"])))
