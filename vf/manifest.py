"""Generates /verif/MANIFEST.json from the table below (run: bin/check manifest)"""
import json, os, subprocess
from .core import ROOT

TRUSTED = ("TLC 1.8.0 + CommunityModules; the `verif` atomics shim of /repo (src/verif.rs); the harness' deterministic scheduler and "
           "call-site -> (function, field) mapper; sequential consistency (one thread runs at a time, TLC interleaves atomic actions); "
           "small scope: exhaustive only for the constants listed in the evidence file")

L1UNI = "Trace_AbsUni (L1: one atomic bounded FIFO with the capacity rule, delivered-once bags, parked-with-work, cancel, reservations, destruction counts)"
L1MULTI = "Trace_AbsMulti (L1: listener lifetimes, per-listener exactly-once / producer order / same payload, churn classification, log total order and old/new split)"
DET = "executions of the real code under the deterministic scheduler (preemption-bounded DFS + seeded random schedules; one scheduling point per shimmed atomic operation / yield point)"

def _c(text, design, technique):
    return dict(text=text, design=design, technique=technique)

CLAIMED = {
    "C01": _c("API-level histories of all five real Uni channel kinds (2 producers through send / send_with / send_with_async / reserve+send_reserved against 1..2 driven streams, BUFFER_SIZE 2 and 4 so the buffer fills and drains) "
              "recorded from " + DET + " and validated by TLC against " + L1UNI + ": every accepted event delivered exactly once, nothing invented, rejected ones never delivered and their setter un-invoked; "
              "the rings underneath are covered by the exhaustive RingAtomic / RingFullSync models of C02.",
              "7 (C01), 4, 5", "TLC trace validation of real executions (deterministic scheduler) against the L1 TLA+ spec Trace_AbsUni; exhaustive TLC on the L2 ring specs"),
    "C02": _c("TLC exhaustively checks the implementation-shaped specs RingAtomic / RingFullSync (one action per atomic operation, counters modulo W, every origin incl. wrap) against the LinQueue on-line linearizability monitor "
              "(atomic bounded FIFO + the capacity rule of the statement); executions of the real AtomicMove / FullSyncMove under the deterministic scheduler are replayed through the L2 trace specs by TLC, each atomic operation with "
              "operands and result; the five real Uni channels (all send entry points against single polls, payload handles held and released on the zero-copy kinds) are validated against the same monitor inside Trace_AbsUni.",
              "7 (C02), 4, 5", "TLA+ L2 spec + LinQueue monitor checked by TLC; trace validation of real executions (deterministic scheduler) against the L2 and L1 specs"),
    "C03": _c("MultiChan (TLA+, implementation shaped: one AtomicMove ring per listener + the fan-out loop over the live-listener list + create_stream_id / drop_resources / report_stream_dropped / the in-place list rebuild + wake / waker registration / cancel + the executor tasks, one action per scheduling point) is checked exhaustively by TLC, and every transition of its state graph (small configurations) is replayed into the real Arc-based atomic Multi channel, each replay validated scheduling point by scheduling point against MultiChan (Trace_MultiChan) and judged by the L1 oracle. "
              "Histories of the six real Multi channel kinds (1..3 listeners created before the first send, 2 producers through every implemented entry point, fewer events than the buffer) from " + DET +
              ", validated by TLC against " + L1MULTI + ": each listener yields every accepted event exactly once, in each producer's order, with the same payload address for all listeners; plus one total order on the log channel.",
              "7 (C03)", "TLA+ L2 spec MultiChan checked by TLC, its transition cover replayed into the real channel; TLC trace validation of real executions (deterministic scheduler) against the L2 spec and the L1 TLA+ spec Trace_AbsMulti"),
    "C04": _c("MultiChan (TLA+, implementation shaped: one AtomicMove ring per listener + the fan-out loop over the live-listener list + create_stream_id / drop_resources / report_stream_dropped / the in-place list rebuild + wake / waker registration / cancel + the executor tasks, one action per scheduling point) is checked exhaustively by TLC, and every transition of its state graph (small configurations) is replayed into the real Arc-based atomic Multi channel, each replay validated scheduling point by scheduling point against MultiChan (Trace_MultiChan) and judged by the L1 oracle. "
              "Driven streams (hand-polled tasks with tokio-like sticky wakers: park on Pending, re-poll on wake) on all five Uni and six Multi channel kinds, MAX_STREAMS 1 and 2, 2..3 producers through every entry point with the "
              "scheduler switching threads between reservation / write / publication / wake decision and consume / keep-running check / waker registration; the quiescent end state of every execution is judged by TLC "
              "(Trace_AbsUni / Trace_AbsMulti: a parked, not cancelled stream with a deliverable accepted event and no runnable thread is a lost wake-up).",
              "7 (C04), 8 (D1)", "TLC trace validation of real executions (deterministic scheduler, manual wakers) against the L1 TLA+ specs; TLA+ L2 specs UniChan / MultiChan checked by TLC with their transition covers replayed into the real channels; known findings recorded for the Uni and Multi atomic kinds"),
    "C05": _c("MultiChan with Kind = ogre (TLA+, implementation shaped): OgreArc::new from the allocator's free list, references += running_streams_count before the fan-out, one raw copy per listed listener, every handle drop a fetch_sub "
              "(the one that finds 1 destroys the payload and returns the slot); TLC checks InvNoUseAfterFree / InvRefsExact / InvPoolBounds on every reachable state and every transition of the small state graph is replayed into the real "
              "OgreArc atomic Multi channel, validated scheduling point by scheduling point (Trace_MultiChan) and judged by the L1 destruction verdicts; a send overlapping the removal of a listener whose id is reused / never reused (safety verdicts only). "
              "Instrumented payloads (per-value destruction counter, alive marker) and a wrapper allocator that notices any use after its own Drop, on the Uni movable + zero-copy and the Multi arc / ogre_arc channels: "
              "handles held and released on other threads, teardown with events still buffered, refill after everything was consumed and released; every history judged by TLC (destroyed at most once, exactly once as soon as "
              "delivered and released, nothing touched after free, BUFFER_SIZE events accepted again).",
              "7 (C05), 8 (D2)", "TLC trace validation of real executions (deterministic scheduler, instrumented payload / allocator) against the L1 TLA+ specs"),
    "C06": _c("UniChan (TLA+, implementation shaped, one action per scheduling point) contains the graceful-close protocol itself -- gracefully_end_all_streams (flush loop: pending count, wake every stream, sleep; cancel_all_streams; "
              "wait until the running-streams count is zero), is_channel_open / running_streams_count, and the drop of a stream (report_stream_dropped + the rebuild of the used-streams list) -- next to send / poll_next / waker registration: "
              "TLC checks InvCloseWaits / InvClosedAfterwards on every reachable state of small configurations and every transition of the state graph is replayed into the real movable atomic Uni channel under the deterministic scheduler, "
              "each replay validated operation by operation against UniChan (Trace_UniChan) and judged by the L1 close verdicts of Trace_AbsUni; MultiChan carries the same protocol for the Arc-based atomic Multi channel "
              "(pending count = the longest of the listed listeners' rings), checked and replayed the same way (Trace_MultiChan / Trace_AbsMulti); the same close / flush loops of all eleven real channel kinds are explored under the scheduler "
              "(preemption-bounded DFS + random schedules) against the L1 verdicts of Trace_AbsUni / Trace_AbsMulti. "
              "CloseProto (TLA+): the graceful-close protocol against a futures executor with a concurrency limit, checked by TLC for limit 1, limit >= 2 (counterexample = the recorded finding) and the candidate repair; "
              "the real Uni / Multi over every channel kind, all executor kinds, limits 1..4, 0..3 events buffered or in flight inside *gated* item futures (no timing dependence), close(Duration::ZERO) on a paused-clock "
              "current-thread runtime and on the multi-thread runtime; the logged life-cycle events are validated by TLC against Trace_AbsExecutor (close returns only after every accepted event was processed; afterwards "
              "no stream, channel closed, later sends not delivered).",
              "7 (C06), 8 (D3)", "TLA+ models UniChan and MultiChan (close protocol, exhaustive + transition covers replayed into the real movable atomic Uni / Arc atomic Multi channels) and CloseProto checked by TLC; TLC trace validation of deterministic-scheduler executions against Trace_UniChan / Trace_AbsUni / Trace_AbsMulti and of gated tokio executions of the real Uni / Multi against Trace_AbsExecutor"),
    "C07": _c("MultiChan (TLA+, implementation shaped: one AtomicMove ring per listener + the fan-out loop over the live-listener list + create_stream_id / drop_resources / report_stream_dropped / the in-place list rebuild + wake / waker registration / cancel + the executor tasks, one action per scheduling point) is checked exhaustively by TLC, and every transition of its state graph (small configurations) is replayed into the real Arc-based atomic Multi channel, each replay validated scheduling point by scheduling point against MultiChan (Trace_MultiChan) and judged by the L1 oracle. "
              "cancel_all_streams issued at every point of the streams' poll steps (before the first poll, between consume and waker registration, while parked, with events buffered), with a concurrent sender, "
              "streams dropped and ids reused, on all Uni and Multi channel kinds with 1..3 streams, from " + DET + "; TLC judges every history (a cancelled stream yields only what is buffered and ends; none stays parked; "
              "running count exact). Ending a single stream (flush_and_cancel_executor) is covered with the tokio drivers of C12.",
              "7 (C07)", "TLA+ L2 specs UniChan / MultiChan checked by TLC, transition covers replayed into the real channels; TLC trace validation of real executions (deterministic scheduler) against the L2 and L1 TLA+ specs"),
    "C08": _c("UniChan (TLA+, implementation shaped) contains reserve_slot / try_send_reserved (with its wake rule) / try_cancel_slot_reserve over RingAtomic's reservation actions: every transition of its state graph is replayed into the real "
              "movable atomic Uni channel against a driven stream, validated against UniChan (Trace_UniChan) and judged by the L1 verdicts. Random histories of reserve / fill / send-reserved / cancel (reverse order) / plain send / receive ending in a capacity probe, on the three Uni channels that implement the API, from every sequence origin in a window "
              "around 2^32, plus a reserving producer against a concurrently polling consumer; the reservation actions of RingAtomic are model-checked from every origin (C15); histories validated by TLC against Trace_AbsUni "
              "(sent slots deliver what was written, cancelled vanish, exactly BUFFER_SIZE accepted afterwards, no panic).",
              "7 (C08), 8 (D4)", "TLA+ L2 specs (RingAtomic reservation actions from every counter origin; UniChan reservation API) checked by TLC, transition covers replayed into the real ring / channel; TLC trace validation of real executions against the L1 TLA+ spec Trace_AbsUni"),
    "C09": _c("The real mmap-log Multi channel: two publishers racing with late subscriptions (new only / joined / old+new split) and listeners consuming at their own pace, from " + DET +
              "; TLC validates every history against Trace_AbsMulti: full replay for joined listeners, the same total order for all listeners, each producer's order, the split pair partitions the history, same address for one event.",
              "7 (C09)", "TLC trace validation of real executions (deterministic scheduler) against the L1 TLA+ spec Trace_AbsMulti"),
    "C10": _c("MultiChan (TLA+, implementation shaped: one AtomicMove ring per listener + the fan-out loop over the live-listener list + create_stream_id / drop_resources / report_stream_dropped / the in-place list rebuild + wake / waker registration / cancel + the executor tasks, one action per scheduling point) is checked exhaustively by TLC, and every transition of its state graph (small configurations) is replayed into the real Arc-based atomic Multi channel, each replay validated scheduling point by scheduling point against MultiChan (Trace_MultiChan) and judged by the L1 oracle. "
              "Random sequential histories of create-listener / send / receive / drop (with or without leftovers) / running-count on the five non-log Multi channels for MAX_STREAMS 1, 2, 4, and create/drop bookkeeping cycles on the "
              "five Uni channels; TLC validates against Trace_AbsMulti / Trace_AbsUni: a listener yields only events accepted during its lifetime, ids recycle, running count = live streams.",
              "7 (C10), 8 (D5)", "TLA+ L2 spec MultiChan (create / drop / id recycling) checked by TLC, transition cover replayed into the real channel; TLC trace validation of real executions against the L2 and L1 TLA+ specs"),
    "C11": _c("Executor (TLA+): for_each / for_each_concurrent accounting model checked by TLC (in-flight <= limit, one outcome per item, error callback exactly once, counters add up, close after the last item); the real "
              "StreamExecutor in all five spawn variants x timeout on/off x instruments x limits 1..3, every item sequence over {ok, err, slow, slowerr} up to length 3 (4 thorough) with gated item futures released out of order, "
              "on the paused-clock and the multi-thread runtime; logged events validated by TLC against Trace_AbsExecutor.",
              "7 (C11)", "TLA+ model Executor checked by TLC; TLC trace validation of gated tokio executions of the real executors against the L1 TLA+ spec Trace_AbsExecutor"),
    "C12": _c("Executor + UniLatch (TLA+) checked by TLC; real executors, Unis (MAX_STREAMS 1, 2; all channel kinds) and Multis (close, flush_and_cancel_executor of one listener, mmap old/new executors with and without the "
              "sequential transition) with gated items completing out of order; TLC validates: close callback exactly once per executor, after its last item, in an ended state, finish >= start; Uni callback once; "
              "no new event before every old one when sequential.",
              "7 (C12)", "TLA+ models Executor / UniLatch checked by TLC; TLC trace validation of gated tokio executions against the L1 TLA+ spec Trace_AbsExecutor"),
    "C13": _c("TLC exhaustively checks the pool allocator's free list (RingAtomic / RingFullSync started pre-filled with the ids 0..POOL_SIZE-1, every counter origin incl. wrap) under multi-threaded alloc/dealloc scripts with "
              "exhaust-and-refill cycles against the LinQueue monitor in 'bag' mode (an allocation returns a free id, never an owned one; fails only if all slots are owned or in transit at some instant) plus InvOneOwner; "
              "executions of the real AllocatorAtomicArray / AllocatorFullSyncArray (alloc_ref, alloc_with, dealloc_id, dealloc_ref) under the deterministic scheduler are validated by TLC against the same specs, and the "
              "id<->reference bijection is compared on the real pointers.",
              "7 (C13), 4, 5", "TLA+ L2 spec + LinQueue(bag) monitor checked by TLC; trace validation of real executions (deterministic scheduler) against the spec"),
    "C14": _c("OgreArc (TLA+): the reference-counting protocol (clone = fetch_add, drop = fetch_sub and whoever saw 1 deallocates and frees the control block, bulk increment + raw copies) checked by TLC on 2..3 threads; "
              "the real OgreArc / OgreUnique handles (new, new_with_clones, clone, increment_references + raw_copy, into_ogre_arc, deref, references_count, drop from several threads) under the deterministic scheduler, every "
              "counter operation validated against the L2 spec with its operands, and the L1 rules judged by TLC: deref = creation value, count = live handles when nothing is in flight, destroyed exactly with the last handle, "
              "slot back in the pool.",
              "7 (C14)", "TLA+ L2 spec OgreArc checked by TLC; trace validation of real executions (deterministic scheduler) against it, with L1 verdicts"),
    "C15": _c("The L1 oracles contain no sequence counters, so a history accepted from every origin is origin independence. TLC checks RingAtomic / RingFullSync / the pool free list from *every* origin of the counter modulus W "
              "(wrap inside every run) with and without overflow checks; the real rings, pool allocators and reservation API run the same single-thread histories (send, receive, reserve, send-reserved, cancel, length, teardown "
              "with leftovers) from origin 0 and from each origin in a window around 2^32 (verif::set_sequence_origin), in a debug (overflow checks) and a nochecks build; every run is validated by TLC against the trace specs, "
              "results are compared operation by operation with origin 0, panics are an L1 verdict; plus concurrent schedules started right below the wrap; plus the channels themselves (whose streams manager owns a second wrapping "
              "structure, the queue of vacant stream ids): sequential create / send / poll / drop / running-count histories on Uni and Multi channels from origin 0 and from the origins around 2^32, judged by Trace_AbsUni / Trace_AbsMulti and compared with origin 0.",
              "7 (C15), 4, 5", "TLA+ L2 specs from every counter origin checked by TLC; trace validation + origin-0 differential of real executions started around the 32-bit wrap (debug and nochecks builds)"),
    "C16": _c("Fill / rejected sends through every entry point / make room / retry / drain cycles and 3 producers colliding at the full boundary against a slow consumer, on all five Uni channels and the two ogre_arc Multi "
              "channels; TLC validates each history against Trace_AbsUni / Trace_AbsMulti: a send is rejected only if all slots are taken at some instant (LinQueue capacity rule), the rejected setter is un-invoked, "
              "pending count unchanged, no thread stalls, exactly BUFFER_SIZE events are accepted again in every cycle (capacity probe).",
              "7 (C16)", "TLC trace validation of real executions (deterministic scheduler) against the L1 TLA+ specs (LinQueue capacity rule)"),
    "C17": _c("MultiChan (TLA+, implementation shaped: one AtomicMove ring per listener + the fan-out loop over the live-listener list + create_stream_id / drop_resources / report_stream_dropped / the in-place list rebuild + wake / waker registration / cancel + the executor tasks, one action per scheduling point) is checked exhaustively by TLC, and every transition of its state graph (small configurations) is replayed into the real Arc-based atomic Multi channel, each replay validated scheduling point by scheduling point against MultiChan (Trace_MultiChan) and judged by the L1 oracle. "
              "A producer fanning out two events while another thread creates or drops a listener (2..3 pre-existing listeners, MAX_STREAMS 4; yield points inside the sender loops and inside the live-list rebuild let the "
              "scheduler interleave them entry by entry) on all six Multi channel kinds; TLC validates against Trace_AbsMulti: listeners that exist throughout get every event once and in order, the added / removed listener a "
              "gap-free suffix / prefix, no payload storage stays occupied (capacity probe), nothing is used after free.",
              "7 (C17), 8 (D6)", "TLC trace validation of real executions (deterministic scheduler) against the L2 spec MultiChan (checked by TLC; counterexample = the recorded finding) and the L1 TLA+ spec Trace_AbsMulti; known finding recorded for sends overlapping churn"),
    "C18": _c("TLC exhaustively checks SpinStack (the atomic-flag stack: swap / each plain access of the critical region / store as separate actions) and the rings under the two non-blocking queues against the LinQueue monitor "
              "(lifo / fifo, 'full' and 'empty' answers justified at an instant of the call); executions of the real atomic-flag stack under the deterministic scheduler are validated against SpinStack, those of the two "
              "NonBlockingQueues against the L1 monitor; all four containers (incl. the parking-lot stack) are additionally run free on 16 cores, call/return stamped from one global counter, and the merged histories are "
              "checked for linearizability by TLC.",
              "7 (C18), 4, 5", "TLA+ L2 spec (SpinStack, rings) + LinQueue(lifo/fifo) monitor checked by TLC; trace validation of deterministic-scheduler and free-running executions of the real containers"),
    "C19": _c("IncAvg (TLA+): load / compute / compare-exchange-retry of the packed (count, average) word with the average carried symbolically, checked by TLC for 2..3 recorders and a prober; the real metric (reached through "
              "StreamExecutor::ok_events_avg_future_duration) under the deterministic scheduler, every atomic operation validated against the L2 spec; probes are judged bit-exactly against the library's own f32 fold over "
              "every interleaving of per-thread prefixes; final count = number of recordings; the mean-within-tolerance clause is numeric and checked by the harness in f64 (stated as outside TLA+).",
              "7 (C19)", "TLA+ L2 spec IncAvg checked by TLC; trace validation of real executions (deterministic scheduler) against it, with L1 verdicts (f32 fold oracle in the harness)"),
    "C20": _c("One or two send_with_async calls whose setter is never resumed (the task is frozen by the scheduler) while other threads send, reserve, poll, drive streams and query the length, on every Uni and non-log Multi "
              "channel kind, plus the resumed variant; the scheduler's stall verdict (a thread re-executing a failing CAS / lock with nobody left to write) and the L1 rules are judged by TLC (Trace_AbsUni / Trace_AbsMulti: "
              "no stall while a setter is suspended, events accepted meanwhile are delivered).",
              "7 (C20), 8 (D7)", "TLC trace validation of real executions (deterministic scheduler with frozen async setters) against the L1 TLA+ specs; known finding recorded for the movable Uni kinds"),
}
NOT_YET = "check not built yet (work in progress; see DESIGN.md section 12)"


def generate():
    props = [json.loads(l)["id"] for l in open(os.path.join(ROOT, "properties.jsonl"))]
    commits = subprocess.run(["git", "-C", "/repo", "log", "--format=%h %s"], stdout=subprocess.PIPE, text=True).stdout.strip().split("\n")
    hook_commits = [c.split()[0] for c in commits if c.split(" ", 1)[1].startswith("verif:")]
    checks = []
    for p in props:
        if p in CLAIMED:
            c = CLAIMED[p]
            checks.append({
                "property_id": p,
                "quick_cmd": "bin/check %s --tier quick" % p,
                "thorough_cmd": "bin/check %s --tier thorough" % p,
                "evidence_file": "/verif/evidence/%s.json" % p,
                "replay_cmd_template": "bin/check replay {path}",
                "engine": "tlc+harness",
                "level_claimed": {"category": "model_checking", "text": c["text"], "design_ref": "DESIGN.md section " + c["design"]},
                "level_note": TRUSTED,
                "technique": c["technique"],
            })
    m = {
        "version": 1,
        "setup_cmd": "bin/setup",
        "hooks": {
            "guard": "verif (cargo feature of reactive-mutiny, off by default)",
            "enable": "the harness depends on /repo with features = [\"verif\"] (harness/Cargo.toml); hooks report to the harness only on threads it registers",
            "baseline_off_cmd": "cd /repo && cargo test --workspace --no-fail-fast --offline",
            "source_commits": hook_commits,
            "add_only": True,
        },
        "engines": [{"name": "tlc+harness", "path": "/verif/bin/check", "serves_properties": sorted(CLAIMED.keys()),
                     "kind_free_text": "explicit TLA+ specifications (spec/*.tla) model-checked by TLC; Rust harness (harness/) executing the real crate under a deterministic scheduler; TLC trace validation of the recorded executions"}],
        "checks": checks,
        "notes": "exit 0 = held on everything explored (KNOWN-FINDING lines for recorded defects listed in known_findings.json), 1 = VIOLATION line printed, 2 = tool error (TOOL-ERROR line)",
        "not_applicable": [{"property_id": p, "reason": NOT_YET} for p in props if p not in CLAIMED],
    }
    with open(os.path.join(ROOT, "MANIFEST.json"), "w") as f:
        json.dump(m, f, indent=1)
    print("MANIFEST.json: %d checks, %d not applicable" % (len(checks), len(m["not_applicable"])))
