"""One function per property: what is model-checked, what is run on the real code, how it is judged."""
import json, os
from .core import *
from .queues import *
from .chan import *
from . import cover

ALL_ORIGINS8 = list(range(8))


def ring_consts(n=2, w=8, procs=4, origins=(0,), relax=True, prefill=False, checks=True, mode="fifo"):
    return {"N": n, "W": w, "Procs": list(range(procs)), "Origins": list(origins), "OverflowChecks": checks, "RelaxEmpty": relax, "Prefill": prefill, "Mode": '"%s"' % mode}


def fs_consts(n=2, w=8, procs=4, origins=(0,), relax=False, prefill=False, mode="fifo", checks=True):
    return {"N": n, "W": w, "Procs": list(range(procs)), "Origins": list(origins), "RelaxEmpty": relax, "Prefill": prefill, "Mode": '"%s"' % mode}


RING_INV = ["TypeOK", "InvBounds", "InvLinearizable", "InvContents", "NoPanic"]
RING_ACTIONS_Q = ["MCCall"]


def conform_ring(c, name, sut, scripts, module, consts_fn, n=2, origins=(0,), bound=2, max_runs=800, rnd_runs=300, profile="debug", prefill=False, relax_kf=True, mode="fifo"):
    """runs the given thread scripts on the real ring / pool under DFS (preemption-bounded) and random schedules,
       validates every execution against the L2 trace spec (strict L1 rule) and judges the outcome"""
    scns = []
    for oi, o in enumerate(origins):
        for si, (sname, threads) in enumerate(scripts):
            scns.append(scn("%s_%s_o%d_dfs" % (name, sname, oi), sut, n, threads, dfs(bound, max_runs), origin=o))
            if rnd_runs:
                scns.append(scn("%s_%s_o%d_rnd" % (name, sname, oi), sut, n, threads, rnd(rnd_runs, c.seed * 1000 + si * 10 + oi + 1), origin=o))
    nthreads = max(len(t) for _, t in scripts)
    consts = consts_fn(n=n, w=64, procs=nthreads, origins=(0,), relax=False, prefill=prefill, mode=mode, checks=(profile == "debug"))
    trace, runs, v = c.conform(scns, name, module, consts, profile=profile)
    judge(c, scns, name, trace, runs, v, module, consts, allow_relax=relax_kf)
    sample_run(c, trace, runs, scns, "validated execution of the real code (%s)" % sut)
    return trace, runs, v


def C02(c):
    C02_rings(c)
    C02_channels(c)
    if c.tier != "quick":
        # the binding itself: a corrupted / shortened recorded trace must be rejected
        from . import selftest
        if selftest.run() != 0:
            c.tool_errors.append("binding selftest failed: a corrupted recorded trace was accepted")
        else:
            c.extra["binding_selftest"] = "corrupted result field rejected by L2 and L1 specs; removed hook event rejected by the L2 spec"


def C02_rings(c):
    quick = c.tier == "quick"
    # --- design level: every interleaving of the atomic-operation actions, all counter origins (wrap included)
    origins = [0, 6, 7] if quick else ALL_ORIGINS8
    kf = kf_open(KF_SPURIOUS_EMPTY) is not None
    for script, procs in (("Script_1p2c", 3), ("Script_2p1c", 3)) + ((("Script_len", 3),) if quick else (("Script_len", 3), ("Script_2p2c1", 4), ("Script_3p1c", 4))):
        c.mc("MC_RingAtomic", script, ring_consts(procs=procs, origins=origins, relax=kf), subst={"Script": script}, invariants=RING_INV,
             required_actions=["MCCall"], timeout=3000, workers=10)
    for script, procs in (("Script_1p2c", 3), ("Script_2p1c", 3), ("Script_len", 3)) + (() if quick else (("Script_2p2c1", 4),)):
        c.mc("MC_RingFullSync", script, fs_consts(procs=procs, origins=origins), subst={"Script": script},
             invariants=["InvBounds", "InvLinearizable", "InvContents", "InvLockOwner"], required_actions=["MCCall"], timeout=3000, workers=10)
    if kf:
        # the recorded finding must still be what the strict rule rejects in the model (otherwise the entry is stale)
        r = c.mc("MC_RingAtomic", "Script_1p2c_strict", ring_consts(procs=3, origins=[0], relax=False), subst={"Script": "Script_1p2c"}, invariants=RING_INV, expect="kf")
        if r["ok"]:
            c.notes.append("known finding %s no longer reproduced by the model under the strict rule" % KF_SPURIOUS_EMPTY)
    # --- the real code: executions under the deterministic scheduler, validated by TLC
    big = U32 - 3
    scripts_a = [("2p2c", [[E(11), E(12)], [E(21), E(22)], [D, D], [D, D]]),
                 ("3p1c", [[E(11), E(12)], [E(21)], [E(31)], [D, D, D]]),
                 ("len", [[E(11), E(12), E(13)], [D, L, D], [L, D]]),
                 # producers overshooting a full ring (N = 2) while the consumer frees slots: the recede / roll-back paths
                 ("collide", [[E(11), E(12), E(13)], [E(21), E(22)], [E(31)], [D, D, D]])]
    mr, rr = (500, 200) if quick else (6000, 3000)
    conform_ring(c, "ring_atomic", "ring_atomic", scripts_a, "Trace_RingAtomic", ring_consts, origins=(0, big), max_runs=mr, rnd_runs=rr)
    conform_ring(c, "ring_fullsync", "ring_fullsync", scripts_a, "Trace_RingFullSync", fs_consts, origins=(0, big), max_runs=mr, rnd_runs=rr)
    # small scripts explored exhaustively within the preemption bound (every schedule with at most two preemptions; three in the thorough tier)
    small = [("x1p2c", [[E(11), E(12)], [D], [D]]), ("x2p1c", [[E(11)], [E(21)], [D, D]]), ("xlen", [[E(11), E(12)], [L, D], [D]])]
    xb = 2 if quick else 3
    conform_ring(c, "ring_atomic_x", "ring_atomic", small, "Trace_RingAtomic", ring_consts, origins=(0,), bound=xb, max_runs=400000, rnd_runs=0)
    conform_ring(c, "ring_fullsync_x", "ring_fullsync", small, "Trace_RingFullSync", fs_consts, origins=(0,), bound=xb, max_runs=400000, rnd_runs=0)
    if not quick:
        conform_ring(c, "ring_atomic_n4", "ring_atomic", [("2p2c4", [[E(11), E(12), E(13)], [E(21), E(22), E(23)], [D, D, D], [D, D]])], "Trace_RingAtomic", ring_consts,
                     n=4, origins=(0, U32 - 5), bound=3, max_runs=8000, rnd_runs=4000)
    # --- specification -> implementation: every transition of the L2 state graph is replayed into the real rings
    cover.cover_ring(c, "ring_atomic_2p1c", "atomic", [[E(11), E(12)], [E(21)], [D, D]])
    cover.cover_ring(c, "ring_fullsync_2p1c", "fullsync", [[E(11), E(12)], [E(21)], [D, D]])
    if not quick:
        cover.cover_ring(c, "ring_atomic_1p2c", "atomic", [[E(11), E(12), E(13)], [D, D], [D]])
        cover.cover_ring(c, "ring_atomic_len", "atomic", [[E(11), E(12)], [D, L], [L, D]], origin=7)
        cover.cover_ring(c, "ring_fullsync_2p2c", "fullsync", [[E(11), E(12)], [E(21)], [D, D], [D]])
    c.assumptions.append("L1 oracle: LinQueue monitor (bounded FIFO, capacity rule of the statement); the recorded finding %s is tolerated only through the relaxed rule LqRelaxEmpty" % KF_SPURIOUS_EMPTY)


AL = op("alloc")
AW = lambda v: op("alloc_with", v)
FR = op("free")
FRR = op("free_ref")
FRL = op("free", last=True)


def C13(c):
    quick = c.tier == "quick"
    origins = [0, 5, 7] if quick else ALL_ORIGINS8
    kf = kf_open(KF_SPURIOUS_EMPTY) is not None
    pool_inv = RING_INV + ["InvOneOwner"]
    for script, procs in (("Script_pool2", 2), ("Script_pool3s", 3)) + (() if quick else (("Script_pool3", 3), ("Script_pool4s", 4),)):
        origins_ = origins if procs < 4 else [0, 7]       # (four threads: two origins, the wrap inside one of them)
        c.mc("MC_RingAtomic", script, ring_consts(procs=procs, origins=origins_, relax=kf, prefill=True, mode="bag"), subst={"Script": script}, invariants=pool_inv,
             required_actions=["MCCall", "DeqRecedeOk", "EnqPublish"], timeout=3000, workers=10)
        c.mc("MC_RingFullSync", script, fs_consts(procs=procs, origins=origins_, prefill=True, mode="bag"), subst={"Script": script},
             invariants=["InvBounds", "InvLinearizable", "InvContents", "InvLockOwner", "InvOneOwner"], required_actions=["MCCall"], timeout=3000, workers=10)
    if not quick:
        c.mc("MC_RingAtomic", "Script_pool2_n4", ring_consts(n=4, w=16, procs=2, origins=[0, 13, 15], relax=kf, prefill=True, mode="bag"), subst={"Script": "Script_pool2"}, invariants=pool_inv, timeout=3000, workers=10)
    big = U32 - 3
    scripts = [("p3", [[AL, AL, FR, AL, FR, FR], [AL, FRR, AL, FR], [AW(7), AL, FRL, FRR]]),
               ("p2x", [[AL, AL, AL, FR, FR, AL], [AL, FR, AL, AL, FRR, FR]]),
               ("p4", [[AL, FR, AL, FRR], [AW(5), FR, AL, FR], [AL, FR], [AL, FRR]])]
    mr, rr = (400, 150) if quick else (5000, 2500)
    conform_ring(c, "pool_atomic", "pool_atomic", scripts, "Trace_RingAtomic", ring_consts, origins=(0, big), max_runs=mr, rnd_runs=rr, prefill=True, mode="bag")
    conform_ring(c, "pool_fullsync", "pool_fullsync", scripts, "Trace_RingFullSync", fs_consts, origins=(0, big), max_runs=mr, rnd_runs=rr, prefill=True, mode="bag")
    # small scripts explored exhaustively within the preemption bound
    small = [("x3", [[AL, FR, AL], [AL, FRR], [AL]]), ("x2", [[AL, AL, FR], [AL, FR, AL]])]
    xb = 2 if quick else 3
    conform_ring(c, "pool_atomic_x", "pool_atomic", small, "Trace_RingAtomic", ring_consts, origins=(0,), bound=xb, max_runs=400000, rnd_runs=0, prefill=True, mode="bag")
    conform_ring(c, "pool_fullsync_x", "pool_fullsync", small, "Trace_RingFullSync", fs_consts, origins=(0,), bound=xb, max_runs=400000, rnd_runs=0, prefill=True, mode="bag")
    if not quick:
        for n in (4, 8):
            conform_ring(c, "pool_atomic_n%d" % n, "pool_atomic", scripts, "Trace_RingAtomic", ring_consts, n=n, origins=(0, U32 - n - 1), bound=3, max_runs=4000, rnd_runs=3000, prefill=True, mode="bag")
            conform_ring(c, "pool_fullsync_n%d" % n, "pool_fullsync", scripts, "Trace_RingFullSync", fs_consts, n=n, origins=(0, U32 - n - 1), bound=3, max_runs=4000, rnd_runs=3000, prefill=True, mode="bag")
    # pools of payloads with a destructor (the destructor is a scheduling point): a slot being deallocated is nobody else's until its payload
    # is gone -- a second owner's payload would be destroyed by the first one's destructor (payload registry: use after free / destroyed twice)
    t_scripts = [("t3", [[AW(1), AW(2), FR, AW(3), FR, FR], [AW(4), FRR, AW(5), FR], [AW(6), AW(7), FRL, FRR]]),
                 ("t2x", [[AW(1), AW(2), FR, FR, AW(3)], [AW(4), FR, AW(5), AW(6), FRR, FR]])]
    for kind in ("pool_atomic_tracked", "pool_fullsync_tracked"):
        conform_l1(c, kind, kind, t_scripts, 2, "bag", max_runs=mr, rnd_runs=rr, consts=lin_consts(2, 3, "bag", prefill=True))
    # specification -> implementation: every transition of the pool's L2 state graph replayed into the real allocators
    cover.cover_ring(c, "pool_atomic_p2", "atomic", [[AL, AL, FR, AL], [AL, FRR, AL]], pool=True)
    cover.cover_ring(c, "pool_fullsync_p2", "fullsync", [[AL, AL, FR, AL], [AL, FRR, AL]], pool=True)
    cover.cover_ring(c, "pool_atomic_p2w", "atomic", [[AL, FR, AL], [AL, AL, FRL]], pool=True, origin=6)
    if not quick:
        cover.cover_ring(c, "pool_atomic_p3", "atomic", [[AL, AL, FR], [AL, FRR, AL], [AL, FR]], pool=True, origin=7)
        cover.cover_ring(c, "pool_fullsync_p3", "fullsync", [[AL, AL, FR], [AL, FRR, AL], [AL, FR]], pool=True, origin=7)
    c.assumptions.append("L1 oracle: LinQueue monitor in 'bag' mode (an allocation may return any free id; never an owned one; fails only if every slot is owned or in transit at some instant of the call); "
                         "id<->reference bijection compared on the real pointers by the harness (flag `bij` judged by the trace spec)")


def lin_consts(n, procs, mode, relax=False, prefill=False):
    return {"N": n, "Procs": list(range(procs)), "RelaxEmpty": relax, "Prefill": prefill, "Mode": '"%s"' % mode}


def conform_l1(c, name, sut, scripts, n, mode, bound=2, max_runs=600, rnd_runs=300, module="Trace_LinQueue", consts=None, allow_relax=True):
    """executions of a container under the deterministic scheduler, judged by an L1 trace spec only"""
    scns = []
    for si, (sname, threads) in enumerate(scripts):
        scns.append(scn("%s_%s_dfs" % (name, sname), sut, n, threads, dfs(bound, max_runs)))
        if rnd_runs:
            scns.append(scn("%s_%s_rnd" % (name, sname), sut, n, threads, rnd(rnd_runs, c.seed * 1000 + si + 1)))
    nthreads = max(len(t) for _, t in scripts)
    consts = consts or lin_consts(n, nthreads, mode)
    trace, runs, v = c.conform(scns, name, module, consts)
    judge(c, scns, name, trace, runs, v, module, consts, allow_relax=allow_relax, l1_module=module, l1_consts=consts)
    sample_run(c, trace, runs, scns, "validated execution of the real code (%s)" % sut)
    return trace, runs, v


def conform_free(c, name, cases, n, threads, mode, relax_ok=True):
    consts = lin_consts(n, threads, mode)
    trace, runs, v = c.conform(None, name, "Trace_LinQueue", consts, free_cases=cases)
    free_scns = [{"id": x["id"], "free": x} for x in cases]
    judge(c, free_scns, name, trace, runs, v, "Trace_LinQueue", consts, allow_relax=relax_ok, l1_module="Trace_LinQueue", l1_consts=consts)


def C18(c):
    quick = c.tier == "quick"
    kf = kf_open(KF_SPURIOUS_EMPTY) is not None
    # design level: the spin-flag stack (every interleaving of swap / plain accesses / store), and the two queues' rings
    for script, procs in (("Script_3t", 3), ("Script_2t", 2)) + (() if quick else (("Script_4t", 4),)):
        c.mc("MC_SpinStack", script, {"N": 2, "Procs": list(range(procs))}, subst={"Script": script},
             invariants=["InvMutex", "InvBounds", "InvLinearizable", "InvContents"], required_actions=["MCCall", "PushHead", "PopRead", "PushUnlock", "PopUnlock"], timeout=3000, workers=10)
    c.mc("MC_RingAtomic", "Script_2p1c", ring_consts(procs=3, origins=[0, 7], relax=kf), subst={"Script": "Script_2p1c"}, invariants=RING_INV, required_actions=["MCCall"], timeout=3000, workers=10)
    c.mc("MC_RingFullSync", "Script_2p1c", fs_consts(procs=3, origins=[0, 7]), subst={"Script": "Script_2p1c"}, invariants=["InvBounds", "InvLinearizable", "InvContents", "InvLockOwner"], required_actions=["MCCall"], timeout=3000, workers=10)
    # real code, deterministic scheduler
    PU = lambda v: op("push", v)
    PO = op("pop")
    stack_scripts = [("3t", [[PU(11), PU(12), PO], [PU(21), PO, PU(22)], [PO, PO]]),
                     ("4t", [[PU(11), PO], [PU(21), PU(22)], [PO, PO], [PU(41), PO]])]
    mr, rr = (500, 250) if quick else (8000, 4000)
    scns = []
    for si, (sname, threads) in enumerate(stack_scripts):
        scns.append(scn("stack_atomic_%s_dfs" % sname, "stack_atomic", 2, threads, dfs(2, mr)))
        scns.append(scn("stack_atomic_%s_rnd" % sname, "stack_atomic", 2, threads, rnd(rr, c.seed * 1000 + si + 1)))
    sconsts = {"N": 2, "Procs": [0, 1, 2, 3]}
    trace, runs, v = c.conform(scns, "stack_atomic", "Trace_SpinStack", sconsts)
    judge(c, scns, "stack_atomic", trace, runs, v, "Trace_SpinStack", sconsts, allow_relax=False, l1_module="Trace_LinQueue", l1_consts=lin_consts(2, 4, "lifo"))
    sample_run(c, trace, runs, scns, "validated execution of the real atomic-flag stack")
    # specification -> implementation: every transition of the spin-flag stack's state graph replayed into the real stack
    cover.cover_stack(c, "stack_3t", [[PU(11), PO], [PU(21), PO], [PO, PU(31)]] if not quick else [[PU(11), PO], [PU(21), PU(22)], [PO]])
    q_scripts = [("2p2c", [[E(11), E(12)], [E(21), E(22)], [D, D], [D, D]]),
                 ("3p1c", [[E(11), E(12)], [E(21)], [E(31)], [D, D, D]])]
    conform_l1(c, "queue_nb_atomic", "queue_nb_atomic", q_scripts, 2, "fifo", max_runs=mr, rnd_runs=rr)
    conform_l1(c, "queue_nb_fullsync", "queue_nb_fullsync", q_scripts, 2, "fifo", max_runs=mr, rnd_runs=rr)
    # small scripts explored exhaustively within the preemption bound (every schedule with at most two preemptions; three in the thorough tier)
    xq = [("x1p2c", [[E(11), E(12)], [D], [D]]), ("x2p1c", [[E(11)], [E(21)], [D, D]])]
    xs = [("x2pu1po", [[PU(11), PU(12)], [PO], [PO]]), ("x1pu2po", [[PU(11)], [PU(21)], [PO, PO]])]
    xb = 2 if quick else 3
    conform_l1(c, "queue_nb_atomic_x", "queue_nb_atomic", xq, 2, "fifo", bound=xb, max_runs=400000, rnd_runs=0)
    conform_l1(c, "queue_nb_fullsync_x", "queue_nb_fullsync", xq, 2, "fifo", bound=xb, max_runs=400000, rnd_runs=0)
    conform_l1(c, "stack_atomic_x", "stack_atomic", xs, 2, "lifo", bound=xb, max_runs=400000, rnd_runs=0, allow_relax=False)
    # real code, real concurrency (all four containers; the only way to exercise the parking-lot mutex)
    rounds, fruns = (60, 6) if quick else (400, 40)
    for kind, mode in (("stack_atomic", "lifo"), ("stack_parking", "lifo"), ("queue_nb_atomic", "fifo"), ("queue_nb_fullsync", "fifo")):
        cases = [{"id": "free_%s_n%d_t%d" % (kind, n, t), "sut": kind, "n": n, "threads": t, "rounds": rounds, "ops": 2, "runs": fruns, "seed": c.seed * 100 + n + t, "put_bias": 55}
                 for (n, t) in ((2, 4), (4, 3), (8, 4))]
        for case in cases:
            conform_free(c, "free_%s_n%d_t%d" % (kind, case["n"], case["threads"]), [case], case["n"], case["threads"], mode)
    c.assumptions.append("L1 oracle: LinQueue monitor in 'lifo' (stacks) / 'fifo' (queues) mode; free-running histories are ordered by a global SeqCst counter read before each call and after each return")


def seq_histories(seed, count, length, n, kinds):
    """random single-thread histories over the ring API (dynamic ops are bound by the harness)"""
    import random
    rng = random.Random(seed)
    out = []
    for k in range(count):
        ops = []
        v = 10
        for _ in range(length):
            kind = rng.choice(kinds)
            v += 1
            if kind == "enq":
                ops.append(op("enq_if_clear", v))
            elif kind == "reserve":
                ops.append(op("reserve"))
                ops.append(op("fill_last", v))
            elif kind in ("deq", "len", "pub_first", "unleak_last", "pub_last"):
                ops.append(op(kind))
        # resolve everything that is still reserved, then drain
        ops += [op("unleak_last")] * 2 + [op("pub_first")] * 2 + [op("len")] + [op("deq")] * (n + 1) + [op("len")]
        out.append(("h%d" % k, [ops]))
    return out


def rets_of(trace, run):
    """observable results of a run; the *physical* slot index a reservation lands in is not an observable (the API returns a reference)"""
    out = []
    for e in extract_run(trace, run):
        if e["k"] == "panic":
            out.append(("panic", e["x"]))
        elif e["k"] == "ret":
            x = dict(e["x"]) if isinstance(e["x"], dict) else e["x"]
            if e["fn"] == "reserve":
                x.pop("v", None)
            out.append((e["fn"], json.dumps(x, sort_keys=True)))
    return out


def chan_rets_of(trace, run):
    """observable results of a channel history (addresses of payloads are not observables of the history)"""
    out = []
    for e in extract_run(trace, run):
        if e["k"] == "panic":
            out.append(("panic", e["x"]))
        elif e["k"] == "ret":
            x = dict(e["x"]) if isinstance(e["x"], dict) else e["x"]
            if isinstance(x, dict):
                x.pop("addr", None)
            out.append((e["fn"], json.dumps(x, sort_keys=True)))
        elif e["k"] == "final":
            x = e["x"] if isinstance(e["x"], dict) else {}
            out.append(("final", json.dumps({k: x.get(k) for k in ("left", "drops", "held", "pending", "running") if k in x}, sort_keys=True)))
    return out


def differential(c, name, trace, runs, scns, base_origin=0, rets_of=None):
    """single-thread histories: the results at every origin / build must be those at origin 0 (C15)"""
    rets_of = rets_of or globals()["rets_of"]
    by_scn = {}
    for r in runs:
        by_scn.setdefault(r["scn"], []).append(r)
    groups = {}
    for s in scns:
        groups.setdefault(s["_hist"], []).append(s)
    compared = 0
    for h, ss in groups.items():
        base = [s for s in ss if s["origin"] == base_origin]
        if not base:
            continue
        ref = rets_of(trace, by_scn[base[0]["id"]][0])
        for s in ss:
            for r in by_scn.get(s["id"], []):
                got = rets_of(trace, r)
                compared += 1
                if got != ref:
                    first = next((i for i, (a, b) in enumerate(zip(got, ref)) if a != b), min(len(got), len(ref)))
                    s2 = {k: v for k, v in s.items() if not k.startswith("_")}
                    s2["explore"] = {"mode": "replay", "schedules": [r["choices"]]}
                    c.violation("history %s answers differently when the sequence counters start at %d than at %d (operation #%d: %s vs %s)" % (
                        h, s["origin"], base_origin, first, got[first] if first < len(got) else None, ref[first] if first < len(ref) else None),
                        {"scenario": s2, "run": r, "events": extract_run(trace, r), "module": "Trace_LinQueue", "consts": {}, "invariant": "OriginIndependence"})
    c.extra.setdefault("differential_comparisons", 0)
    c.extra["differential_comparisons"] += compared


def window_origins(n, quick):
    lo = U32 - 2 * n
    w = [(lo + k) % U32 for k in range(4 * n)]
    return w if not quick else [w[i] for i in range(0, len(w), 2)] + [U32 - 1, U32 - 2]


def conform_seq(c, name, sut, hists, n, module, consts, profile, origins, l1_consts):
    scns = []
    for (hname, threads) in hists:
        for o in [0] + sorted(set(origins)):
            s = scn("%s_%s_o%d_%s" % (name, hname, o, profile), sut, n, threads, dfs(0, 1), origin=o)
            s["_hist"] = hname
            scns.append(s)
    clean = [{k: v for k, v in s.items() if not k.startswith("_")} for s in scns]
    trace, runs, v = c.conform(clean, "%s_%s" % (name, profile), module, consts, profile=profile)
    judge(c, clean, "%s_%s" % (name, profile), trace, runs, v, module, consts, allow_relax=False, l1_consts=l1_consts)
    differential(c, name, trace, runs, scns)
    return trace, runs


def C15_channels(c):
    """the channels themselves: besides the event ring (or the allocator's free list) every channel owns a second wrapping structure, the streams
       manager's queue of vacant stream ids (a FullSyncMove whose counters start at the same sequence origin).  Sequential histories of create /
       send / poll / drop / running-count from origin 0 and from every origin around 2^32: judged by the L1 oracle at every origin, and compared
       result by result with origin 0 (yielded values, accept / reject answers, reported counts, what is left buffered at the end)."""
    quick = c.tier == "quick"
    cnt, ln = (4, 12) if quick else (24, 16)
    uni_kinds = ["uni_move_atomic", "uni_move_fullsync", "uni_zc_atomic"] if quick else UNI_KINDS
    multi_kinds = ["multi_arc_atomic", "multi_ogre_atomic", "multi_arc_fullsync"] if quick else MULTI_NONLOG
    for kind in uni_kinds + multi_kinds:
        multi = kind.startswith("multi")
        scns = []
        for s_ in (2, 4):
            origins = [U32 - k for k in range(1, 2 * s_ + 2)]
            if quick:
                origins = origins[::2] + [U32 - s_]
            # (a fixed warm-up moves the vacant-id queue's counters: ids handed out and given back before the random part)
            warm = [CREATE(), CREATE(), DROPS(0), CREATE(), DROPS(1), DROPS(2)]
            for hname, ops, nl in lifetime_histories(c.seed * 17 + s_, cnt, ln, s_, max_sends=3):
                shift = lambda o: dict(o, s=o["s"] + 3) if o["op"] in ("poll", "drop_stream") else o
                hist = warm + [shift(o) for o in ops]
                if not multi:
                    # Uni: a stream must exist for polls to make sense; sends are accepted up to the buffer size regardless
                    pass
                for o_ in sorted(set([0] + origins)):
                    sc = cscn("%s_s%d_%s_o%d" % (kind, s_, hname, o_), kind, 4, s_, [hist], dfs(0, 1), pre_streams=0, payload="u64")
                    sc["origin"] = o_
                    sc["_hist"] = "s%d_%s" % (s_, hname)
                    scns.append(sc)
        clean = [{k: v for k, v in s.items() if not k.startswith("_")} for s in scns]
        if multi:
            trace, runs, v = conform_chan(c, "%s_origins" % kind, clean, "Trace_AbsMulti", multi_consts(4, 1, ["InvNoInvention", "InvAtMostOncePerListener", "InvOnlyLifetimeEvents", "InvRunningCount", "NoPanic"], nlis=16))
        else:
            trace, runs, v = conform_chan(c, "%s_origins" % kind, clean, "Trace_AbsUni", uni_consts(4, 1, kind, ["InvDeliveredAtMostOnce", "InvNoLossNoInvention", "NoPanic"]))
        differential(c, "%s_origins" % kind, trace, runs, scns, rets_of=chan_rets_of)


def C15(c):
    quick = c.tier == "quick"
    C15_channels(c)
    # design level: every origin of the (small) counter modulus, with and without overflow checks
    for checks in (True, False):
        for script, procs in (("Script_resv", 2), ("Script_resv2", 2), ("Script_2p1c", 3)) + (() if quick else (("Script_2p2c1", 4),)):
            c.mc("MC_RingAtomic", "%s_%s" % (script, "chk" if checks else "nochk"), ring_consts(procs=procs, origins=ALL_ORIGINS8, relax=True, checks=checks), subst={"Script": script},
                 invariants=RING_INV, required_actions=["MCCall"], timeout=3000, workers=10)
    c.mc("MC_RingFullSync", "Script_2p1c", fs_consts(procs=3, origins=ALL_ORIGINS8), subst={"Script": "Script_2p1c"},
         invariants=["InvBounds", "InvLinearizable", "InvContents", "InvLockOwner"], required_actions=["MCCall"], timeout=3000, workers=10)
    c.mc("MC_RingAtomic", "Script_pool2", ring_consts(procs=2, origins=ALL_ORIGINS8, relax=True, prefill=True, mode="bag"), subst={"Script": "Script_pool2"}, invariants=RING_INV + ["InvOneOwner"], timeout=3000, workers=10)
    # real code: the same histories from origin 0 and from every origin around 2^32, debug (overflow checks) and nochecks builds
    cnt, ln = (6, 10) if quick else (40, 14)
    for n in (2, 4):
        origins = window_origins(n, quick)
        hists = seq_histories(c.seed * 77 + n, cnt, ln, n, ["enq", "enq", "deq", "len", "reserve", "reserve", "pub_first", "unleak_last", "pub_last"])
        fs_hists = seq_histories(c.seed * 79 + n, cnt, ln, n, ["enq", "enq", "deq", "len"])
        pool_hists = [("p%d" % k, [[AL, AL, FR, AL, AL, FRL, AL, FR, FRR, AL][k % 3:] + [AL] * n + [FR] * n]) for k in range(3)]
        for profile in ("debug", "nochecks"):
            chk = profile == "debug"
            conform_seq(c, "ring_atomic_n%d" % n, "ring_atomic", hists, n, "Trace_RingAtomic", ring_consts(n=n, w=64, procs=1, relax=False, checks=chk), profile, origins, lin_consts(n, 1, "fifo"))
            conform_seq(c, "ring_fullsync_n%d" % n, "ring_fullsync", fs_hists, n, "Trace_RingFullSync", fs_consts(n=n, w=64, procs=1), profile, origins, lin_consts(n, 1, "fifo"))
            conform_seq(c, "pool_atomic_n%d" % n, "pool_atomic", pool_hists, n, "Trace_RingAtomic", ring_consts(n=n, w=64, procs=1, relax=False, prefill=True, mode="bag", checks=chk), profile, origins,
                        lin_consts(n, 1, "bag", prefill=True))
    # concurrent executions started right below the wrap
    big = U32 - 3
    scripts_a = [("2p2c", [[E(11), E(12)], [E(21), E(22)], [D, D], [D, D]])]
    mr, rr = (300, 150) if quick else (4000, 2000)
    conform_ring(c, "ring_atomic_wrap", "ring_atomic", scripts_a, "Trace_RingAtomic", ring_consts, origins=(big, U32 - 1), max_runs=mr, rnd_runs=rr)
    conform_ring(c, "ring_fullsync_wrap", "ring_fullsync", scripts_a, "Trace_RingFullSync", fs_consts, origins=(big, U32 - 1), max_runs=mr, rnd_runs=rr)
    # specification -> implementation from every origin of the model's counter modulus: the real counters (started at 2^32 - 8 + o) wrap
    # exactly where the model's do, and the real code follows every transition of every origin's state graph
    RS, FL, PB, UL = op("reserve"), (lambda i, v: op("fill", v, i)), (lambda i: op("pub_idx", 0, i)), (lambda i: op("unleak_idx", 0, i))
    for o in (ALL_ORIGINS8 if not quick else [0, 5, 6, 7]):
        cover.cover_ring(c, "ring_atomic_1p1c", "atomic", [[E(11), E(12), E(13)], [D, D]], origin=o)
        cover.cover_ring(c, "ring_fullsync_1p1c", "fullsync", [[E(11), E(12), E(13)], [D, D]], origin=o)
    for o in ((5, 7) if quick else ALL_ORIGINS8):
        cover.cover_ring(c, "ring_atomic_resv", "atomic", [[RS, RS, FL(1, 12), UL(1), FL(0, 11), PB(0), RS, FL(0, 13), PB(0)], [D, D, D]], origin=o)
    c.assumptions.append("the L1 oracle has no counters, so acceptance of the same history from every origin *is* origin independence; single-thread histories are additionally compared result by result with origin 0 (incl. reported lengths, panics)")


def uni_workload(kind, s_streams, variant):
    """producers x entry points against `s_streams` driven consumers; the buffer (N=2) fills and drains inside the run"""
    resv = kind in UNI_RESERVE
    p0 = [S(11), SW(12), S(13)]
    p1 = [SA(21, 1), SW(22, False)] + ([RSV, FILL(23), SENDR] if resv else [S(23)])
    if variant == 1:
        p0 = [SW(11), SA(12, 2), S(13)]
        p1 = ([RSV, FILL(21), SENDR] if resv else [SA(21, 0)]) + [SIC(22), SWIC(23)]
    cons = [[DRIVE(i)] for i in range(s_streams)]
    return [p0, p1] + cons


def uniwake(kind, n=4, maxs=1, prods=2, sends=2, cancel=False):
    return {"Kind": '"%s"' % kind, "N": n, "MaxS": maxs, "Prods": list(range(prods)), "Sends": sends, "WithCancel": cancel}


def C01(c):
    quick = c.tier == "quick"
    # protocol level: every interleaving of reserve / publish / wake decision with consume / keep check / waker registration
    for kind in ("atomic", "fullsync"):
        for n, maxs in ((2, 2), (4, 1)):
            c.mc("UniWake", "%s_n%d_s%d" % (kind, n, maxs), uniwake(kind, n=n, maxs=maxs, prods=2, sends=2 if quick else 3), invariants=["InvCounts", "InvNoLoss"], init="Init", next_="Next",
                 required_actions=["Reserve", "WakeDecision", "Consume", "Register"] + (["Publish"] if kind == "atomic" else []), timeout=1200, workers=8)
    checks = ["InvDeliveredAtMostOnce", "InvNoLossNoInvention", "InvRejectedSetterUninvoked", "NoPanic"]
    # channel level, implementation shaped: UniChan (RingAtomic + wake / waker registration + the executor task), exhaustively, and every one
    # of its transitions replayed into the real movable atomic channel
    cover.cover_unichan(c, "unichan_1p1c3", [[S(11), S(12), S(13)], [DRIVE(0, max_=3)]], checks)
    cover.cover_unichan(c, "unichan_2p1c", [[S(11)], [S(21)], [DRIVE(0, max_=2)]], checks)
    if not quick:
        cover.cover_unichan(c, "unichan_1p1c_n2", [[S(11), S(12), S(13)], [DRIVE(0, max_=2)]], checks, n=2)
        cover.cover_unichan(c, "unichan_2p1c_s2", [[S(11), S(12)], [DRIVE(0, max_=2)], [DRIVE(1, max_=2)]], checks, maxs=2)
    mr, rr = (150, 100) if quick else (3000, 2000)
    for kind in UNI_KINDS:
        scns = []
        for n, s_ in ((2, 1), (2, 2)) + (() if quick else ((4, 1), (4, 2))):
            for variant in (0, 1):
                th = uni_workload(kind, s_, variant)
                scns.append(cscn("%s_n%ds%d_v%d_dfs" % (kind, n, s_, variant), kind, n, s_, th, dfs(2, mr), pre_streams=s_))
                scns.append(cscn("%s_n%ds%d_v%d_rnd" % (kind, n, s_, variant), kind, n, s_, th, rnd(rr, c.seed * 100 + variant + n), pre_streams=s_))
        conform_chan(c, kind, scns, "Trace_AbsUni", uni_consts(2, 4, kind, checks))


def by_n(scns):
    g = {}
    for s in scns:
        g.setdefault(s["n"], []).append(s)
    return sorted(g.items())


def C04(c):
    quick = c.tier == "quick"
    # protocol level: the full-sync hand-shake never strands an event; the atomic one does (the recorded finding) -- both as TLC says
    for maxs in (1, 2):
        c.mc("UniWake", "fullsync_s%d" % maxs, uniwake("fullsync", n=4, maxs=maxs, prods=2 if quick else 3, sends=2), invariants=["InvCounts", "InvNoLostWakeup"], init="Init", next_="Next",
             required_actions=["Reserve", "WakeDecision", "Consume", "Register", "PollStart"], timeout=1200, workers=8)
    if kf_open("KF-C04-racing-lost-wakeup-uni-atomic"):
        r = c.mc("UniWake", "atomic_s1_strict", uniwake("atomic", n=4, maxs=1, prods=2, sends=2), invariants=["InvNoLostWakeup"], init="Init", next_="Next", expect="kf", timeout=1200, workers=8)
        if r["ok"]:
            c.notes.append("the recorded finding KF-C04-racing-lost-wakeup-uni-atomic is no longer reproduced by the UniWake model")
    else:
        c.mc("UniWake", "atomic_s1", uniwake("atomic", n=4, maxs=1, prods=2, sends=2), invariants=["InvCounts", "InvNoLostWakeup"], init="Init", next_="Next", timeout=1200, workers=8)
    checks = ["InvNoLostWakeup"]
    # the same at the granularity of the code: UniChan; the strict rule fails in the model exactly as the recorded finding says, and every
    # transition of the model is replayed into the real channel (the replays that strand an event are matched against that finding)
    if kf_open("KF-C04-racing-lost-wakeup-uni-atomic"):
        r = c.mc("MC_UniChan", "1p1c3_strict", {"N": 4, "W": 16, "Procs": [0, 1], "Origins": [0], "OverflowChecks": True, "RelaxEmpty": True, "Prefill": False, "Mode": '"fifo"', "MaxS": 1},
                 subst={"Script": "Script_1p1c3"}, invariants=["InvNoLostWakeup"], deadlock=False, expect="kf", timeout=1200, workers=6)
        if r["ok"]:
            c.notes.append("the recorded finding KF-C04-racing-lost-wakeup-uni-atomic is no longer reproduced by the UniChan model")
    cover.cover_unichan(c, "unichan_1p1c3", [[S(11), S(12), S(13)], [DRIVE(0, max_=3)]], checks)
    cover.cover_unichan(c, "unichan_2p1c", [[S(11)], [S(21)], [DRIVE(0, max_=2)]], checks)
    if not quick:
        cover.cover_unichan(c, "unichan_2p1c_s2", [[S(11), S(12)], [DRIVE(0, max_=2)], [DRIVE(1, max_=2)]], checks, maxs=2)
    mr, rr = (150, 100) if quick else (3000, 2000)
    for kind in UNI_KINDS:
        scns = []
        for n, s_ in ((2, 1), (2, 2), (4, 1), (4, 2)):
            for variant in (0, 1):
                th = uni_workload(kind, s_, variant)
                scns.append(cscn("%s_n%ds%d_v%d_dfs" % (kind, n, s_, variant), kind, n, s_, th, dfs(2, mr), pre_streams=s_))
                scns.append(cscn("%s_n%ds%d_v%d_rnd" % (kind, n, s_, variant), kind, n, s_, th, rnd(rr, c.seed * 100 + variant + n), pre_streams=s_))
        for n, group in by_n(scns):
            conform_chan(c, "%s_n%d" % (kind, n), group, "Trace_AbsUni", uni_consts(n, 4, kind, checks))
    C04_multi(c)


def C04_multi(c):
    """the listeners of a Multi channel are driven streams too: an accepted event reaches every driven listener without further sends"""
    quick = c.tier == "quick"
    kf = kf_open("KF-C04-racing-lost-wakeup-multi-atomic") is not None
    # MultiChan: with at most two events outstanding per listener the wake rule (len_after <= 2) never strands an event ...
    c.mc("MC_MultiChan", "1p2l_wake", multichan(3, 2), subst={"Script": "Script_1p2l"}, invariants=MCH_STRUCT + ["InvNoLostWakeup"], deadlock=False, required_actions=MCH_ACTIONS + ["MCUnpark"], timeout=1200, workers=8)
    # ... with three it does, exactly as the recorded finding says; every transition of that model is replayed into the real channel and the
    # replays that strand an event are matched against the finding
    if kf:
        r = c.mc("MC_MultiChan", "l3_strict", multichan(2, 1), subst={"Script": "Script_l3"}, invariants=["InvNoLostWakeup"], deadlock=False, expect="kf", timeout=1200, workers=6)
        if r["ok"]:
            c.notes.append("the recorded finding KF-C04-racing-lost-wakeup-multi-atomic is no longer reproduced by the MultiChan model")
    cover.cover_multichan(c, "multichan_l3", [[S(11), S(12), S(13)], [DRIVE(0, max_=3)]], ["InvNoLostWakeup"] + MULTI_DELIVERY, initial=1,
                          invariants=tuple(MCH_STRUCT + MCH_DELIVERY + ([] if kf else ["InvNoLostWakeup"])))
    mr, rr = (150, 100) if quick else (3000, 2000)

    def build(kind):
        out = []
        n = 4
        for s_, nl in ((2, 1), (2, 2)) + (() if quick else ((4, 3),)):
            th = [[S(11), S(12), S(13)]] + [[DRIVE(i, max_=3)] for i in range(nl)]
            out += explore2("%s_s%dl%d_3" % (kind, s_, nl), kind, n, s_, th, c, mr, rr, pre_streams=nl)
            p1 = [SW(21)] if kind != "multi_mmap" else [S(21)]
            th = [[S(11), S(12)], p1] + [[DRIVE(i, max_=3)] for i in range(nl)]
            out += explore2("%s_s%dl%d_2p" % (kind, s_, nl), kind, n, s_, th, c, mr, rr, seed_extra=1, pre_streams=nl)
        return out
    run_multi(c, MULTI_KINDS, build, ["InvNoLostWakeup", "InvAtMostOncePerListener", "NoPanic"], procs=5, tag="_wake")


def run_uni(c, kinds, build, checks, relax_kf=False, procs=4, expect_stalls=False):
    """build(kind) -> list of scenarios; validated per (kind, N) against Trace_AbsUni with the given verdicts switched on"""
    for kind in kinds:
        for n, group in by_n(build(kind)):
            conform_chan(c, "%s_n%d" % (kind, n), group, "Trace_AbsUni", uni_consts(n, procs, kind, checks), relax_kf=relax_kf, expect_stalls=expect_stalls)


def C02_channels(c):
    """C02 at the channel level: sends through every entry point against single polls (so that 'empty' answers occur)"""
    quick = c.tier == "quick"
    mr, rr = (150, 100) if quick else (3000, 2000)

    def build(kind):
        out = []
        zc = kind in UNI_ZC
        for n, s_ in ((2, 1), (2, 2)) + (() if quick else ((4, 2),)):
            p0 = [S(11), SW(12), S(13)]
            p1 = [SW(21, False), SA(22, 1)]
            c0 = [POLL(0, hold=zc), POLL(0), RELALL, POLL(0)] if zc else [POLL(0), POLL(0), POLL(0)]
            th = [p0, p1, c0] + ([[POLL(1), POLL(1)]] if s_ == 2 else [])
            out += explore2("%s_n%ds%d_lin" % (kind, n, s_), kind, n, s_, th, c, mr, rr, pre_streams=s_)
        return out
    run_uni(c, UNI_KINDS, build, ["InvLinearizable", "NoPanic", "InvPendingCount"], relax_kf=True)


def C07(c):
    quick = c.tier == "quick"
    for kind in ("atomic", "fullsync"):
        c.mc("UniWake", "%s_cancel" % kind, uniwake(kind, n=4, maxs=2, prods=2, sends=1 if quick else 2, cancel=True), invariants=["InvCounts", "InvCancelEnds"], init="Init", next_="Next",
             required_actions=["CancelStep", "KeepCheck", "Register"], timeout=1200, workers=8)
    mr, rr = (200, 120) if quick else (4000, 2500)
    checks = ["InvCancelEndsStreams", "InvDeliveredAtMostOnce", "InvRunningCount", "NoPanic"]
    # UniChan: cancel_all_streams against every step of a stream's poll, every transition replayed into the real channel
    cover.cover_unichan(c, "unichan_cancel", [[S(11)], [op("cancel_all")], [DRIVE(0, max_=9)]], checks)
    if not quick:
        cover.cover_unichan(c, "unichan_cancel_s2", [[S(11)], [op("cancel_all")], [DRIVE(0, max_=9)], [DRIVE(1, max_=9)]], checks, maxs=2)

    def build(kind):
        out = []
        for n, s_ in ((2, 1), (2, 2), (4, 2)):
            cons = [[DRIVE(i), DROPS(i), op("running")] for i in range(s_)]
            th = [[S(11), SW(12)], [CANCEL_ALL, op("running")]] + cons
            out += explore2("%s_n%ds%d_cancel" % (kind, n, s_), kind, n, s_, th, c, mr, rr, pre_streams=s_)
            # cancel before the first poll / with events buffered; then the id is reusable
            th2 = [[S(11), S(12), CANCEL_ALL], [DRIVE(0), DROPS(0), CREATE(), op("running"), POLL(s_)]] + ([[DRIVE(1)]] if s_ == 2 else [])
            out += explore2("%s_n%ds%d_reuse" % (kind, n, s_), kind, n, s_, th2, c, mr, rr, seed_extra=7, pre_streams=s_)
        # streams that were dropped without ever having been told to end, (some of) their ids reused, and only then cancel_all_streams: every
        # stream alive at that point -- whatever its id -- ends, parked or not
        for s_, drops, recreate in ((2, [0], 0), (4, [0, 1], 1), (4, [1, 2], 0)):
            live = [i for i in range(s_) if i not in drops] + [s_ + k for k in range(recreate)]
            th3 = [[DROPS(i) for i in drops] + [CREATE() for _ in range(recreate)] + [S(11), CANCEL_ALL, op("running")]] + [[DRIVE(i), DROPS(i), op("running")] for i in live[:2]] \
                  + [[POLL(i), POLL(i), POLL(i)] for i in live[2:]]
            out += explore2("%s_n4s%d_stale%d" % (kind, s_, len(drops)), kind, 4, s_, th3, c, mr, rr, seed_extra=11, pre_streams=s_)
        return out
    run_uni(c, UNI_KINDS, build, checks)
    C07_multi(c)


def resv_histories(seed, count, length, n):
    import random
    rng = random.Random(seed)
    out = []
    for k in range(count):
        ops = []
        v = 100 + k * 40
        for _ in range(length):
            kind = rng.choice(["reserve", "reserve", "send", "poll", "send_reserved", "cancel", "poll"])
            v += 1
            if kind == "reserve":
                ops += [RSV, FILL(v)]
            elif kind == "send":
                ops.append(SIC(v))
            elif kind == "poll":
                ops.append(POLL(0))
            elif kind == "send_reserved":
                ops.append(SENDR)
            else:
                ops.append(CANCR)
        # resolve what is still reserved, consume everything, then probe the capacity: exactly N sends are accepted
        ops += [CANCR] * 3 + [SENDR] * 3 + [POLL(0)] * (n + 1) + [S(900 + i) for i in range(n + 1)] + [op("pending")]
        out.append(("h%d" % k, ops))
    return out


def C08(c):
    quick = c.tier == "quick"
    # design level: the reservation actions (publish / cancel by index with lap reconstruction) from every counter origin
    for script in ("Script_resv", "Script_resv2"):
        c.mc("MC_RingAtomic", script, ring_consts(procs=2, origins=ALL_ORIGINS8, relax=True, checks=True), subst={"Script": script}, invariants=RING_INV,
             required_actions=["MCCall", "PubIdxCasOk", "UnleakCasOk"], timeout=1200, workers=8)
    # specification -> implementation: every transition of the reservation state graph replayed into the real ring (incl. across the wrap)
    RS, FL, PB, UL = op("reserve"), (lambda i, v: op("fill", v, i)), (lambda i: op("pub_idx", 0, i)), (lambda i: op("unleak_idx", 0, i))
    for o in ((0, 6) if quick else (0, 3, 5, 6, 7)):
        cover.cover_ring(c, "ring_atomic_resv", "atomic", [[RS, RS, FL(1, 12), UL(1), FL(0, 11), PB(0), RS, FL(0, 13), PB(0)], [D, D, D]], origin=o)
        cover.cover_ring(c, "ring_atomic_resv2", "atomic", [[RS, FL(0, 11), PB(0), RS, UL(0), RS, FL(0, 12), PB(0), E(13)], [D, D, D]], origin=o)
    checks = ["InvLinearizable", "InvDeliveredAtMostOnce", "InvNoLossNoInvention", "NoPanic", "InvPendingCount"]
    # ... and of the channel layer on top of it: UniChan's reserve_slot / try_send_reserved (with its wake rule) / try_cancel_slot_reserve against a
    # driven stream -- every transition replayed into the real movable atomic Uni channel, validated against UniChan, judged by the L1 verdicts
    SR1, CR1 = (lambda i: op("send_reserved", 0, i, tries=1)), (lambda i: op("cancel_reserved", 0, i, tries=1))
    resv_inv = ("InvLinearizable", "InvBounds", "InvChanTypes", "InvWakersLock", "InvNoLoss", "InvNoLostWakeup")
    cover.cover_unichan(c, "unichan_resv", [[RS, FL(0, 11), RS, FL(1, 12), CR1(1), SR1(0), RS, FL(0, 13), SR1(0)], [DRIVE(0, max_=2)]], checks + ["InvNoLostWakeup"], invariants=resv_inv)
    if not quick:
        # (a second reservation history, same shape as the validated one: reserve twice, send the first, cancel the second, reserve + send again)
        cover.cover_unichan(c, "unichan_resv_b", [[RS, FL(0, 21), RS, FL(1, 22), SR1(0), CR1(0), RS, FL(0, 23), SR1(0)], [DRIVE(0, max_=2)]], checks + ["InvNoLostWakeup"], invariants=resv_inv)
    cnt, ln = (8, 8) if quick else (60, 12)
    mr, rr = (150, 100) if quick else (3000, 2000)

    def build(kind):
        out = []
        for n in (2, 4):
            origins = [0] + (window_origins(n, True) if quick else window_origins(n, False))
            for hname, ops in resv_histories(c.seed * 31 + n, cnt, ln, n):
                for o in origins:
                    sc = cscn("%s_n%d_%s_o%d" % (kind, n, hname, o), kind, n, 1, [ops], dfs(0, 1), payload="u64")
                    sc["origin"] = o
                    out.append(sc)
            # a reserving producer against a concurrently polling consumer
            prod = [RSV, FILL(11), RSV, FILL(12), CANCR, SENDR, RSV, FILL(13), SENDR, SIC(14)]
            out += explore2("%s_n%d_conc" % (kind, n), kind, n, 1, [prod, [POLL(0), POLL(0), POLL(0), POLL(0)]], c, mr, rr, payload="u64")
        return out
    for profile in ("debug",):
        run_uni(c, UNI_RESERVE, build, checks, procs=2)


def C16(c):
    quick = c.tier == "quick"
    # design level: three producers overshooting at the full boundary against one consumer (recede paths), both rings
    kf = kf_open(KF_SPURIOUS_EMPTY) is not None
    c.mc("MC_RingAtomic", "Script_3p1c", ring_consts(procs=4, origins=[7] if quick else [0, 3, 7], relax=kf), subst={"Script": "Script_3p1c"}, invariants=RING_INV, required_actions=["MCCall", "EnqRecedeOk", "EnqRecedeFail"], timeout=3000, workers=10)
    c.mc("MC_RingFullSync", "Script_2p1c", fs_consts(procs=3, origins=[0, 7]), subst={"Script": "Script_2p1c"}, invariants=["InvBounds", "InvLinearizable", "InvContents", "InvLockOwner"], required_actions=["MCCall"], timeout=3000, workers=10)
    # specification -> implementation: the recede paths at the full boundary, every transition, on the real rings
    cover.cover_ring(c, "ring_atomic_full", "atomic", [[E(11), E(12)], [E(21)], [E(31), D]], origin=7)
    cover.cover_ring(c, "ring_fullsync_full", "fullsync", [[E(11), E(12)], [E(21)], [E(31), D]], origin=7)
    mr, rr = (150, 100) if quick else (3000, 2000)
    checks = ["InvLinearizable", "InvRejectedSetterUninvoked", "InvDeliveredAtMostOnce", "InvNoLossNoInvention", "InvPendingCount", "InvNoStall", "NoPanic"]

    def build(kind):
        out = []
        zc = kind in UNI_ZC
        resv = kind in UNI_RESERVE
        for n in (2, 4):
            # histories: fill, rejected sends through every entry point, make room, retry, drain -- three cycles
            ops = []
            v = 10
            for cyc in range(3):
                for _ in range(n):
                    v += 1
                    ops.append(S(v))
                ops += [op("pending"), S(v + 100), SW(v + 101), SA(v + 102, 1)] + ([RSV] if resv else []) + [op("pending")]
                ops += [POLL(0, hold=zc)] + ([RELALL] if zc else []) + [SW(v + 103), S(v + 104), op("pending")]
                ops += [POLL(0)] * (n + 1) + [op("pending")]
                v += 200
            sc = cscn("%s_n%d_cycles" % (kind, n), kind, n, 1, [ops], dfs(0, 1))
            out.append(sc)
            # several producers colliding at the boundary against one slow consumer
            th = [[S(11), S(12), S(13)], [SW(21), SW(22, False)], [SA(31, 1), S(32)], [POLL(0), POLL(0), op("pending")]]
            if kind == "uni_move_crossbeam":
                # its setter-based sends wait by documented design once their initial fullness test has passed (excluded by the statement)
                th = [[S(11), S(12), S(13)], [S(21), S(22)], [S(31), S(32)], [POLL(0), POLL(0), op("pending")]]
            out += explore2("%s_n%d_collide" % (kind, n), kind, n, 1, th, c, mr, rr)
        return out
    run_uni(c, UNI_KINDS, build, checks, relax_kf=True)
    C16_multi(c)


def C20(c):
    quick = c.tier == "quick"
    mr, rr = (120, 80) if quick else (2500, 1500)
    checks = ["InvNoStall", "InvNoLostWakeup", "InvDeliveredAtMostOnce", "NoPanic"]

    def build(kind):
        out = []
        for n, s_ in ((2, 1), (4, 1), (4, 2)):
            # one producer suspended for ever inside its async setter; everybody else must still complete
            th = [[SA(11, -1)], [S(21), SW(22), op("pending")], [DRIVE(0, max_=2)]]
            out += explore2("%s_n%ds%d_never" % (kind, n, s_), kind, n, s_, th, c, mr, rr, pre_streams=s_)
            th2 = [[SA(11, -1)], [SA(21, -1)], [S(31), op("pending"), POLL(0), POLL(0)]]
            out += explore2("%s_n%ds%d_never2" % (kind, n, s_), kind, n, s_, th2, c, mr, rr, seed_extra=3, pre_streams=s_)
            # suspended for a while, then resumed: the suspended event is delivered as well
            th3 = [[SA(11, 3)], [S(21), SW(22)], [DRIVE(0, max_=3)]]
            out += explore2("%s_n%ds%d_later" % (kind, n, s_), kind, n, s_, th3, c, mr, rr, seed_extra=5, pre_streams=s_)
            # a second asynchronous send whose own setter finishes at once (or after one step) overlaps the suspended one: it completes, and
            # its event and the plain one sent after it are delivered while the first is still suspended
            th4 = [[SA(11, -1)], [SA(21, 1), S(22), op("pending")], [DRIVE(0, max_=2)]]
            out += explore2("%s_n%ds%d_async2" % (kind, n, s_), kind, n, s_, th4, c, mr, rr, seed_extra=9, pre_streams=s_)
            th5 = [[SA(11, 4), SA(12, 0)], [SA(21, 0), SA(22, 2)], [DRIVE(0, max_=4)]]
            out += explore2("%s_n%ds%d_async4" % (kind, n, s_), kind, n, s_, th5, c, mr, rr, seed_extra=11, pre_streams=s_)
        return out
    run_uni(c, UNI_KINDS, build, checks, expect_stalls=True)
    C20_multi(c)


def C05_uni(c):
    quick = c.tier == "quick"
    mr, rr = (150, 100) if quick else (3000, 2000)
    checks = ["InvDestroyedAtMostOnce", "InvDestroyedExactlyOnce", "InvNoUseAfterFree", "InvLinearizable", "NoPanic"]

    def build(kind):
        out = []
        zc = kind in UNI_ZC
        for n in (2, 4):
            # handles released on another thread; teardown with events still buffered (no drain)
            th = [[S(11), SW(12), S(13), S(14)], [POLL(0, hold=True), POLL(0, hold=True)], [RELALL, S(31), RELALL]]
            for drain in (True, False):
                out += explore2("%s_n%d_%s" % (kind, n, "drain" if drain else "leftovers"), kind, n, 1, th, c, mr, rr, drain=drain)
            # fill, consume and release everything, then the channel accepts N events again
            ops = [S(10 + i) for i in range(n)] + [POLL(0, hold=True)] * n + [RELALL] + [S(50 + i) for i in range(n + 1)]
            out.append(cscn("%s_n%d_refill" % (kind, n), kind, n, 1, [ops], dfs(0, 1)))
        return out
    run_uni(c, ["uni_move_atomic", "uni_move_fullsync", "uni_zc_atomic", "uni_zc_fullsync"], build, checks, relax_kf=True)


def run_multi(c, kinds, build, checks, procs=5, expect_stalls=False, tag=""):
    for kind in kinds:
        for n, group in by_n(build(kind)):
            conform_chan(c, "%s_n%d%s" % (kind, n, tag), group, "Trace_AbsMulti", multi_consts(n, procs, checks), expect_stalls=expect_stalls)


MULTI_DELIVERY = ["InvNoInvention", "InvAtMostOncePerListener", "InvOnlyLifetimeEvents", "InvProducerOrder", "InvSamePayload", "InvLeftoversLegal", "InvAllDelivered", "InvNoGaps", "NoPanic"]


def multi_producers(kind, variant=0):
    ogre = kind in MULTI_OGRE
    p0 = [S(11), SW(12)]
    p1 = [SA(21, 1)] + ([RSV, FILL(22), SENDR] if ogre else [S(22)])
    if variant == 1:
        p0 = [SW(11, False), SA(12, 2)]
        p1 = [S(21), SW(22)]
    if kind == "multi_mmap":
        # its send_with_async / reserve_slot are todo!() upstream (excluded by the statements)
        p0 = [S(11), SW(12)] if variant == 0 else [SW(11, False), S(12)]
        p1 = [SW(21), S(22)] if variant == 0 else [S(21), SW(22)]
    return [p0, p1]


def multifan(kind, churn, initial=(0, 1, 2), s_=4):
    return {"Kind": '"%s"' % kind, "S": s_, "Initial": list(initial), "Churn": '"%s"' % churn}


FAN_INV = ["InvThroughout", "InvNoDuplicates", "InvNoPhantomRefs"]


def multichan(script_procs, initial, maxs=2, n=4, kind="arc"):
    return {"N": n, "W": 4 * n, "MaxS": maxs, "Procs": list(range(script_procs)), "Initial": set(range(initial)), "Kind": '"%s"' % kind}


MCH_STRUCT = list(cover.MULTICHAN_INV)
MCH_DELIVERY = list(cover.MULTICHAN_DELIVERY)
MCH_ACTIONS = ["FanRead", "EnqFA", "EnqLoadHead", "EnqPublish", "WakePeek", "DeqFA", "DeqLoadTail", "DeqRelease", "DeqRecedeOk", "KeepRead", "WakerPeek", "WakerLock", "WakerUnlock"]


def C03(c):
    quick = c.tier == "quick"
    # channel level, implementation shaped: MultiChan (one AtomicMove ring per listener + the fan-out loop + wake / waker registration + the
    # executor tasks), exhaustively; and every transition of a smaller configuration replayed into the real Arc-based atomic channel
    c.mc("MC_MultiChan", "1p2l", multichan(3, 2), subst={"Script": "Script_1p2l"}, invariants=MCH_STRUCT + MCH_DELIVERY, deadlock=False, required_actions=MCH_ACTIONS + ["MCUnpark"], timeout=1200, workers=8)
    c.mc("MC_MultiChan", "2p1l", multichan(3, 1), subst={"Script": "Script_2p1l"}, invariants=MCH_STRUCT + MCH_DELIVERY, deadlock=False, required_actions=MCH_ACTIONS, timeout=1200, workers=8)
    if not quick:
        c.mc("MC_MultiChan", "2p2l", multichan(4, 2), subst={"Script": "Script_2p2l"}, invariants=MCH_STRUCT + MCH_DELIVERY, deadlock=False, required_actions=MCH_ACTIONS, timeout=1800, workers=10)
    cover.cover_multichan(c, "multichan_2p1l", [[S(11)], [S(21)], [DRIVE(0, max_=2)]], MULTI_DELIVERY, initial=1, max_paths=2500 if quick else None)
    # the OgreArc kind (pooled payloads, reference counting around the fan-out): two racing producers, one listener -- "the very same shared allocation"
    c.mc("MC_MultiChan", "ogre_2p1l", multichan(3, 1, kind="ogre"), subst={"Script": "Script_2p1l"}, invariants=MCH_STRUCT + MCH_DELIVERY + ["InvNoUseAfterFree", "InvPoolBounds", "InvRefsExact"], deadlock=False,
         required_actions=MCH_ACTIONS + ["SendIncRefs", "HandleDrop"], timeout=1200, workers=8)
    cover.cover_multichan(c, "multichan_ogre_2p1l", [[S(11)], [S(21)], [DRIVE(0, max_=2)]], MULTI_DELIVERY + ["InvNoUseAfterFree"], initial=1, kind="ogre", max_paths=1500 if quick else None,
                          invariants=tuple(MCH_STRUCT + MCH_DELIVERY + ["InvNoUseAfterFree", "InvPoolBounds", "InvRefsExact"]))
    if not quick:
        cover.cover_multichan(c, "multichan_1p2l", [[S(11), S(12)], [DRIVE(0, max_=2)], [DRIVE(1, max_=2)]], MULTI_DELIVERY, initial=2)
    # protocol level: with a fixed listener set the fan-out loop serves every listener exactly once (both sender shapes)
    for kind in ("arc", "ogre"):
        for initial in ((0,), (0, 1, 2)):
            c.mc("MC_MultiFan", "%s_static_%d" % (kind, len(initial)), multifan(kind, "none", initial), subst={"Events": "Ev3"}, invariants=FAN_INV, init="Init", next_="Next",
                 required_actions=["SendStart", "SendVisit", "SendEnd"], timeout=600, workers=6)
    mr, rr = (150, 100) if quick else (3000, 2000)

    def build(kind):
        out = []
        n = 4
        for s_, nl in ((2, 1), (2, 2), (4, 3)) if not quick else ((2, 2), (4, 3)):
            for variant in (0, 1):
                th = multi_producers(kind, variant) + [[DRIVE(i, max_=4)] for i in range(nl)]
                out += explore2("%s_s%dl%d_v%d" % (kind, s_, nl, variant), kind, n, s_, th, c, mr, rr, seed_extra=variant, pre_streams=nl)
        return out
    run_multi(c, MULTI_NONLOG, build, MULTI_DELIVERY, procs=5)
    run_multi(c, ["multi_mmap"], build, MULTI_DELIVERY + ["InvSameTotalOrder"], procs=5)
    # implementation -> specification at the granularity of the code: explored executions (two producers, three listeners, MAX_STREAMS 4) of the
    # Arc-based atomic channel with every scheduling point recorded, validated step by step against MultiChan
    th = [[S(11), S(12)], [S(21), S(22)], [DRIVE(0, max_=4)], [DRIVE(1, max_=4)], [POLL(2), POLL(2), POLL(2)]]
    scns = explore2("multi_arc_atomic_s4l3_ops", "multi_arc_atomic", 4, 4, th, c, mr, rr, seed_extra=17, pre_streams=3, payload="u64")
    cover.conform_multichan(c, "multi_arc_atomic_l2", scns, MULTI_DELIVERY, maxs=4, n=4, nthreads=5)


def lifetime_histories(seed, count, length, s_max, max_sends=3):
    """sequential histories of create / send / poll / drop (with or without leftovers) / cancel_all"""
    import random
    rng = random.Random(seed)
    out = []
    for k in range(count):
        ops = []
        live = []
        nxt = 0
        v = 100 + 50 * k
        sends = 0
        for _ in range(length):
            choice = rng.choice(["create", "send", "send", "poll", "poll", "drop", "running"])
            if choice == "send" and sends >= max_sends:
                choice = "poll"
            if choice == "create" and len(live) < s_max:
                ops.append(CREATE())
                live.append(nxt)
                nxt += 1
            elif choice == "send":
                v += 1
                sends += 1
                ops.append(S(v))
            elif choice == "poll" and live:
                ops.append(POLL(rng.choice(live)))
            elif choice == "drop" and live:
                s = rng.choice(live)
                live.remove(s)
                ops.append(DROPS(s))
            elif choice == "running":
                ops.append(op("running"))
        ops.append(op("running"))
        out.append(("h%d" % k, ops, nxt))
    return out


def C10(c):
    quick = c.tier == "quick"
    # protocol level, sequential histories only (state constraint): listener creation / removal between sends never disturbs anybody
    for kind in ("arc", "ogre"):
        for churn in ("add", "remove"):
            c.mc("MC_MultiFan", "%s_%s_sequential" % (kind, churn), multifan(kind, churn), subst={"Events": "Ev3"}, invariants=FAN_INV, init="Init", next_="Next", constraint="Sequential",
                 required_actions=["SendVisit", "ChurnStart", "SyncWrite"], timeout=600, workers=6)
    # channel level, implementation shaped: MultiChan with create_stream_id / drop_resources / report_stream_dropped / the list rebuild;
    # sequential histories (ids recycled through the vacant queue) and churn between sends
    c.mc("MC_MultiChan", "seq", multichan(1, 1), subst={"Script": "Script_seq"}, invariants=MCH_STRUCT + MCH_DELIVERY, deadlock=False,
         required_actions=["CreateVPop", "CreateKeep", "DropWLock", "DropVPush", "SyncLock", "SyncWrite", "SyncUnlock"], timeout=600, workers=4)
    c.mc("MC_MultiChan", "recycle", multichan(2, 2), subst={"Script": "Script_recycle"}, invariants=MCH_STRUCT + MCH_DELIVERY, deadlock=False,
         required_actions=["CreateVPop", "DropVPush", "SyncWrite"], timeout=600, workers=6)
    for script, initial in (("Script_add", 1), ("Script_remove", 2)):
        c.mc("MC_MultiChan", script[7:] + "_sequential", multichan(3, initial), subst={"Script": script}, invariants=MCH_STRUCT + MCH_DELIVERY, deadlock=False, constraint="Sequential",
             required_actions=["SyncWrite", "FanRead"], timeout=1200, workers=8)
    cover.cover_multichan(c, "multichan_seq", [[S(11), CREATE(), S(12), DROPS(0), S(13), CREATE(), S(14), POLL(2), POLL(2), POLL(1), POLL(1), POLL(1), POLL(1)]],
                          MULTI_DELIVERY + ["InvRunningCount"], initial=1, idmap=[0, 1, 0])
    cover.cover_multichan(c, "multichan_recycle", [[S(11), DROPS(0), CREATE(), S(12), POLL(2), POLL(2)], [DRIVE(1, max_=2)]], MULTI_DELIVERY, initial=2, idmap=[0, 1, 0],
                          max_paths=1500 if quick else None)
    cnt, ln = (10, 12) if quick else (80, 16)

    def build(kind):
        out = []
        for n, s_ in ((4, 1), (4, 2), (4, 4)):
            for hname, ops, nl in lifetime_histories(c.seed * 13 + s_, cnt, ln, s_):
                out.append(cscn("%s_s%d_%s" % (kind, s_, hname), kind, n, s_, [ops], dfs(0, 1), pre_streams=0))
        return out
    run_multi(c, MULTI_NONLOG, build, MULTI_DELIVERY + ["InvRunningCount"], procs=1)

    # histories continued from inside a drop: while the leftovers of a dropped listener are being destroyed (their destructors take time),
    # another thread that finds room creates a listener and sends to it -- the new listener is owed everything sent after its creation
    mr, rr = (150, 120) if quick else (3000, 2500)

    def build_nested(kind):
        out = []
        # (MAX_STREAMS = 1: the only payload destructors running are those of the dropped listener's leftovers; the new stream is created only
        #  while one of them runs and the channel reports room -- creating on a stale "room" reading is a caller error, not judged here)
        for s_ in (1,):
            th_a = [S(11), S(12), DROPS(0)]
            th_b = [op("wait_drop"), op("create_if_room", dropping=True), S(21), POLL(s_), POLL(s_), op("running")]
            th = [th_a, th_b]
            for sc in explore2("%s_s%d_nested" % (kind, s_), kind, 4, s_, th, c, mr, rr, seed_extra=s_, pre_streams=s_):
                sc["record_ops"] = True
                out.append(sc)
        return out
    run_multi(c, MULTI_NONLOG, build_nested, MULTI_DELIVERY + ["InvRunningCount"], procs=3, tag="_nested")

    # the same create / drop bookkeeping on the Uni channels: ids never run out, the running count is exact
    def build_uni(kind):
        out = []
        for s_ in (1, 2):
            ops = []
            k = 0
            for cyc in range(6):
                ops += [CREATE(), op("running")]
                if s_ == 2:
                    ops += [CREATE(), op("running"), DROPS(k + 1)]
                ops += [S(10 + cyc), POLL(k), DROPS(k), op("running")]
                k += s_
            out.append(cscn("%s_s%d_ids" % (kind, s_), kind, 4, s_, [ops], dfs(0, 1), pre_streams=0))
        return out
    run_uni(c, UNI_KINDS, build_uni, ["InvRunningCount", "InvDeliveredAtMostOnce", "NoPanic"], procs=1)


def C17(c):
    quick = c.tier == "quick"
    # protocol level: the in-place list rebuild under a running sender (the recorded finding), and the one combination that is safe
    c.mc("MC_MultiFan", "arc_add", multifan("arc", "add"), subst={"Events": "Ev2"}, invariants=FAN_INV, init="Init", next_="Next", required_actions=["SendVisit", "ChurnStart", "SyncWrite"], timeout=600, workers=6)
    for kind, churn in (("arc", "remove"), ("ogre", "add"), ("ogre", "remove")):
        if kf_open("KF-C17-listener-list-rewritten-under-senders"):
            r = c.mc("MC_MultiFan", "%s_%s_strict" % (kind, churn), multifan(kind, churn), subst={"Events": "Ev2"}, invariants=FAN_INV, init="Init", next_="Next", expect="kf", timeout=600, workers=6)
            if r["ok"]:
                c.notes.append("the recorded finding KF-C17 is no longer reproduced by the MultiFan model (%s, %s)" % (kind, churn))
        else:
            c.mc("MC_MultiFan", "%s_%s" % (kind, churn), multifan(kind, churn), subst={"Events": "Ev2"}, invariants=FAN_INV, init="Init", next_="Next", timeout=600, workers=6)
    # channel level, implementation shaped: MultiChan -- the fan-out loop reading the list while create / drop rewrite it.  Adding a listener
    # is safe for the Arc channels; removing one is the recorded finding (a listener that exists throughout gets an event twice / not at all)
    c.mc("MC_MultiChan", "add", multichan(3, 1), subst={"Script": "Script_add"}, invariants=MCH_STRUCT + MCH_DELIVERY, deadlock=False, required_actions=["SyncWrite", "FanRead", "CreateKeep"], timeout=1200, workers=8)
    if kf_open("KF-C17-listener-list-rewritten-under-senders"):
        r = c.mc("MC_MultiChan", "remove_strict", multichan(3, 2), subst={"Script": "Script_remove"}, invariants=MCH_DELIVERY, deadlock=False, expect="kf", timeout=1200, workers=8)
        if r["ok"]:
            c.notes.append("the recorded finding KF-C17 is no longer reproduced by the MultiChan model")
    else:
        c.mc("MC_MultiChan", "remove", multichan(3, 2), subst={"Script": "Script_remove"}, invariants=MCH_STRUCT + MCH_DELIVERY, deadlock=False, timeout=1200, workers=8)
    # every transition of the small churn configurations replayed into the real channel (the structural invariants are the model's; the
    # delivery verdicts on the real executions are the L1 oracle's, which attributes what happens during churn to the recorded finding)
    cover.cover_multichan(c, "multichan_add1", [[S(11)], [CREATE(), POLL(1), POLL(1)]], MULTI_DELIVERY, initial=1, invariants=tuple(MCH_STRUCT), max_paths=2500 if quick else None)
    cover.cover_multichan(c, "multichan_remove1", [[S(11)], [DROPS(0)], [POLL(1), POLL(1)]], MULTI_DELIVERY, initial=2, invariants=tuple(MCH_STRUCT), max_paths=2500 if quick else None)
    mr, rr = (200, 150) if quick else (4000, 3000)
    checks = ["InvNoUseAfterFree"] + MULTI_DELIVERY + ["InvCapacityRestored", "InvDestroyedAtMostOnce"]

    def build(kind):
        out = []
        n, s_ = 4, 4
        for pre in (2, 3):
            probe = n if kind in MULTI_OGRE else None
            # a churner adds a listener / removes one while the producer fans out
            th_add = [[S(11), S(12)], [CREATE(), DRIVE(pre, max_=2)]] + [[DRIVE(i, max_=2)] for i in range(pre - 1)] + [[POLL(pre - 1), POLL(pre - 1), POLL(pre - 1)]]
            th_rem = [[S(11), S(12)], [POLL(0), DROPS(0)]] + [[DRIVE(i, max_=2)] for i in range(1, pre)]
            for nm, th in (("add", th_add), ("rem", th_rem)):
                for sc in explore2("%s_l%d_%s" % (kind, pre, nm), kind, n, s_, th, c, mr, rr, seed_extra=pre, pre_streams=pre):
                    if probe is not None:
                        sc["probe"] = probe
                    sc["record_ops"] = True      # "during churn" is then exact: the send overlapped a rewrite of the live-listener list
                    out.append(sc)
        # a recycled stream id that sorts BEFORE live ones (create 0 1 2; drop 1; create -> 3; create -> 1: the list [0,2,3,-] becomes [0,1,2,3]
        # and a listener that exists throughout moves to another position) while a producer sends
        th = [[DROPS(1), CREATE(), S(11)], [CREATE()], [DRIVE(0, max_=1)], [DRIVE(2, max_=1)]]
        for sc in explore2("%s_recycled_id" % kind, kind, n, 4, th, c, mr * 4, rr * 4, seed_extra=9, pre_streams=3):
            sc["record_ops"] = True
            out.append(sc)
        return out
    run_multi(c, MULTI_KINDS, build, checks, procs=5)
    # implementation -> specification at the granularity of the code: the same churn executions of the Arc-based atomic channel once more with
    # every scheduling point recorded, validated step by step against MultiChan (structural invariants along the real behaviour) and judged by L1
    scns = build("multi_arc_atomic")
    for s_ in scns:
        s_.pop("probe", None)
        s_["id"] += "_ops"
        if s_["explore"]["mode"] == "dfs":
            s_["explore"]["max_runs"] = max(1, s_["explore"]["max_runs"] // 2)
        elif s_["explore"]["mode"] == "random":
            s_["explore"]["runs"] = max(1, s_["explore"]["runs"] // 2)
    cover.conform_multichan(c, "multi_arc_atomic_l2", scns, checks, maxs=4, n=4, nthreads=5)


def C05(c):
    # design level: the reference-counting protocol never frees a value while a handle exists, nor touches the control block afterwards
    c.mc("MC_OgreArc", "Script_3t", {"Procs": [0, 1, 2], "Names": ['"a"', '"b"', '"c"', '"d"', '"e"']}, subst={"Script": "Script_3t"},
         invariants=["InvNotFreedWhileHeld", "InvCtlNotUsedAfterFree", "InvRefCount", "InvCounter", "InvFreedAtEnd"], required_actions=["MCCall", "DropDealloc"], timeout=600, workers=6)
    C05_uni(c)
    quick = c.tier == "quick"
    mr, rr = (150, 100) if quick else (3000, 2000)
    checks = ["InvDestroyedAtMostOnce", "InvDestroyedExactlyOnce", "InvNoUseAfterFree", "InvCapacityRestored", "InvNoInvention", "NoPanic"]

    def build(kind):
        out = []
        n, s_ = 4, 2
        probe = n if kind in MULTI_OGRE else None
        # two listeners, handles held and released on other threads, teardown with events still buffered
        th = [[S(11), SW(12), S(13)], [POLL(0, hold=True), POLL(0, hold=True)], [POLL(1, hold=True), RELALL], [RELALL]]
        for drain in (True, False):
            for sc in explore2("%s_%s" % (kind, "drain" if drain else "leftovers"), kind, n, s_, th, c, mr, rr, pre_streams=2, drain=drain):
                if probe is not None and drain:
                    sc["probe"] = probe
                out.append(sc)
        # sequential: everything consumed and released, then BUFFER_SIZE events are accepted again
        ops = [S(10 + i) for i in range(3)] + [POLL(0, hold=True)] * 3 + [POLL(1)] * 3 + [RELALL]
        sc = cscn("%s_refill" % kind, kind, n, s_, [ops], dfs(0, 1), pre_streams=2)
        if probe is not None:
            sc["probe"] = probe
        out.append(sc)
        return out
    run_multi(c, MULTI_NONLOG, build, checks, procs=4)
    # MultiChan with Kind = "ogre" (L2): OgreArc::new from the allocator's free list, references += running_streams_count before the fan-out, one raw
    # copy per listed listener, every handle drop a fetch_sub (the one that finds 1 destroys the payload and returns the slot).  TLC checks
    # InvNoUseAfterFree / InvRefsExact on every reachable state; every transition of the small graph is replayed into the real OgreArc atomic
    # Multi channel, validated scheduling point by scheduling point against MultiChan and judged by the L1 destruction verdicts
    ogre_inv = tuple(MCH_STRUCT) + tuple(MCH_DELIVERY) + ("InvNoUseAfterFree", "InvPoolBounds", "InvRefsExact")
    safety = ["InvNoUseAfterFree", "InvDestroyedAtMostOnce", "InvNoInvention", "InvAtMostOncePerListener", "NoPanic"]
    c.mc("MC_MultiChan", "ogre_1p2l", multichan(3, 2, kind="ogre"), subst={"Script": "Script_1p2l"}, invariants=list(ogre_inv), deadlock=False,
         required_actions=MCH_ACTIONS + ["PoolDeqRelease", "SendIncRefs", "HandleDrop", "PoolEnqPublish"], timeout=1200, workers=8)
    cover.cover_multichan(c, "multichan_ogre_1p2l", [[S(11)], [DRIVE(0, max_=1)], [DRIVE(1, max_=1)]], safety, initial=2, invariants=ogre_inv, kind="ogre", max_paths=2500 if quick else None)
    if not quick:
        cover.cover_multichan(c, "multichan_ogre_2ev", [[S(11), S(12)], [DRIVE(0, max_=2)]], safety, initial=1, invariants=ogre_inv, kind="ogre")

    # a send overlapping the removal of a listener whose id is then reused, another listener holding its handle meanwhile: whatever the
    # (recorded) churn finding does to delivery, no payload may be destroyed while a handle to it exists, nor twice
    def build_churn(kind):
        out = []
        th = [[S(11)], [DROPS(1), CREATE(), POLL(2, hold=True), RELALL], [POLL(0, hold=True), RELALL]]
        out += explore2("%s_churn_reuse" % kind, kind, 4, 2, th, c, mr * 2, rr * 2, pre_streams=2, drain=False)
        th = [[S(11), S(12)], [DROPS(1), CREATE(), DRIVE(2, max_=2)], [DRIVE(0, max_=2, hold=True), RELALL]]
        out += explore2("%s_churn_reuse2" % kind, kind, 4, 2, th, c, mr, rr, seed_extra=5, pre_streams=2, drain=False)
        # the id is NOT reused: a copy that the overlapping send put into the removed listener's ring stays there until the channel itself goes
        # (teardown must still destroy it exactly once, through an allocator that is still there)
        th = [[S(11), S(12)], [DROPS(1)], [POLL(0, hold=True), RELALL]]
        out += explore2("%s_churn_teardown" % kind, kind, 4, 2, th, c, mr * 2, rr * 2, seed_extra=6, pre_streams=2, drain=False)
        return out
    run_multi(c, MULTI_OGRE, build_churn, ["InvNoUseAfterFree", "InvDestroyedAtMostOnce", "NoPanic"], procs=4, tag="_churn")


def C07_multi(c):
    quick = c.tier == "quick"
    mr, rr = (150, 100) if quick else (3000, 2000)
    # MultiChan: cancel_all_streams against every step of two listeners' polls (and a concurrent send); every transition of the
    # one-listener configuration replayed into the real channel
    c.mc("MC_MultiChan", "cancel", multichan(4, 2), subst={"Script": "Script_cancel"}, invariants=MCH_STRUCT + ["InvCancelEnds", "InvNoDuplicates"], deadlock=False,
         required_actions=["CancelNext", "CancelClear", "CancelWakePeek", "CancelWakeLock", "KeepRead", "WakerLock"], timeout=1200, workers=8)
    cover.cover_multichan(c, "multichan_cancel1", [[S(11)], [CANCEL_ALL], [DRIVE(0, max_=9)]], ["InvCancelEndsStreams", "InvAtMostOncePerListener", "InvNoInvention", "NoPanic"], initial=1,
                          max_paths=2500 if quick else None)

    def build(kind):
        out = []
        n = 4
        for s_, nl in ((2, 2), (4, 3)):
            cons = [[DRIVE(i), DROPS(i), op("running")] for i in range(nl)]
            th = [[S(11), SW(12)], [CANCEL_ALL]] + cons
            out += explore2("%s_s%dl%d_cancel" % (kind, s_, nl), kind, n, s_, th, c, mr, rr, pre_streams=nl)
        # listeners dropped without having been told to end, an id reused, then cancel_all_streams: every listener alive then ends
        for s_, nl, drops, recreate in ((2, 2, [0], 0), (4, 3, [0, 1], 1)):
            live = [i for i in range(nl) if i not in drops] + [nl + k for k in range(recreate)]
            th3 = [[DROPS(i) for i in drops] + [CREATE() for _ in range(recreate)] + [S(11), CANCEL_ALL]] + [[DRIVE(i), DROPS(i), op("running")] for i in live]
            out += explore2("%s_s%dl%d_stale" % (kind, s_, nl), kind, n, s_, th3, c, mr, rr, seed_extra=13, pre_streams=nl)
        return out
    run_multi(c, MULTI_KINDS, build, ["InvCancelEndsStreams", "InvAtMostOncePerListener", "InvNoInvention", "InvRunningCount", "NoPanic"], procs=5)


def C09(c):
    quick = c.tier == "quick"
    # design level: every interleaving of two publishers (fetch_add / fill / in-order CAS) with late subscriptions of every kind and
    # listeners consuming at their own pace
    c.mc("MmapLog", "2p2_2subs" if quick else "2p2_3subs", {"Pubs": [0, 1], "PerPub": 2, "Subs": [0, 1] if quick else [0, 1, 2]}, init="Init", next_="Next", deadlock=False,
         invariants=["InvPublishedOnly", "InvOneOrder", "InvProducerOrder", "InvSplit", "InvTails"], required_actions=["PubFA", "PubCAS", "Subscribe", "SubLoad", "SubRecede"], timeout=3000, workers=10)
    mr, rr = (250, 200) if quick else (5000, 4000)
    # "yields the entire history": a driven listener that is left parked with events of the history unread never does -- the wake-up of the
    # log channel's listeners (every send wakes every listener) is judged here too (no recorded finding concerns the log channel)
    checks = MULTI_DELIVERY + ["InvSameTotalOrder", "InvSplitPartitions", "InvNoLostWakeup"]

    def build(kind):
        out = []
        n = 4
        # two publishers racing with late subscriptions of every implemented kind; listeners consume at their own pace
        for how, nm in (("joined", "joined"), ("split", "split"), ("new", "new")):
            extra = [DRIVE(1, max_=4)] if how != "split" else [DRIVE(1), DRIVE(2, max_=4)]
            th = [[S(11), SW(12)], [SW(21, False), S(22)], [CREATE(how)] + extra, [DRIVE(0, max_=4)]]
            out += explore2("%s_%s" % (kind, nm), kind, n, 4, th, c, mr, rr, seed_extra=len(nm), pre_streams=["new"])
        # histories: sends, then late subscriptions, then more sends
        ops = [S(11), S(12), CREATE("joined"), S(13), CREATE("split"), S(14), S(15)] + [POLL(1)] * 6 + [POLL(2)] * 5 + [POLL(3)] * 3 + [POLL(0)] * 6
        out.append(cscn("%s_hist" % kind, kind, n, 4, [ops], dfs(0, 1), pre_streams=["new"]))
        return out
    run_multi(c, ["multi_mmap"], build, checks, procs=4)
    # the same executions once more with every atomic operation recorded, replayed through the L2 specification MmapLog itself:
    # each fetch_add / load / compare-exchange on publisher_tail, consumer_tail and the subscribers' heads must be the next step of
    # that publisher / subscriber in the model, and the model's C09 invariants must hold along the real behaviour
    scns = build("multi_mmap")
    for s_ in scns:
        s_["record_ops"] = True
        s_["id"] += "_ops"
        if s_["explore"]["mode"] == "dfs":
            s_["explore"]["max_runs"] = max(1, s_["explore"]["max_runs"] // 2)
        elif s_["explore"]["mode"] == "random":
            s_["explore"]["runs"] = max(1, s_["explore"]["runs"] // 2)
    l2c = {"Pubs": [0, 1, 2, 3], "PerPub": 6, "Subs": list(range(8)), "MaxHandles": 8}
    trace, runs, v = c.conform(scns, "multi_mmap_l2", "Trace_MmapLog", l2c)
    for x in v["violations"]:
        s2 = dict([q for q in scns if q["id"] == x["run"]["scn"]][0])
        s2["explore"] = {"mode": "replay", "schedules": [x["run"]["choices"]]}
        c.violation("%s (MmapLog) violated by the real code (scenario %s, run %d)" % (x["inv"], x["run"]["scn"], x["run"]["run"]),
                    {"scenario": s2, "run": x["run"], "events": extract_run(trace, x["run"]), "module": "Trace_MmapLog", "consts": {k: tla_val(q) for k, q in l2c.items()}, "invariant": x["inv"]})
    if v["mismatches"]:
        c.drift.append("multi_mmap: %d run(s) of the real log channel are not behaviours of MmapLog (first unmatched event: %s)" % (len(v["mismatches"]), json.dumps(v["mismatches"][0]["event"])[:300]))
    if v["unvalidated"]:
        c.tool_errors[:] = [e for e in c.tool_errors if not str(e).startswith("UNVALIDATED[multi_mmap_l2]")]


def C16_multi(c):
    quick = c.tier == "quick"
    mr, rr = (150, 100) if quick else (3000, 2000)

    def build(kind):
        out = []
        n, s_ = 4, 2
        ops = []
        v = 10
        for cyc in range(3):
            for _ in range(n):
                v += 1
                ops.append(S(v))
            ops += [S(v + 100), SW(v + 101), SA(v + 102, 1), RSV]                       # all rejected: the pool is exhausted
            ops += [POLL(0)] * n + [POLL(1)] * n                                         # both listeners consume (and release)
            v += 200
        sc = cscn("%s_cycles" % kind, kind, n, s_, [ops], dfs(0, 1), pre_streams=2)
        sc["probe"] = n
        out.append(sc)
        th = [[S(11), S(12), S(13)], [SW(21), SW(22, False)], [SA(31, 1), S(32)], [POLL(0), POLL(0)], [POLL(1)]]
        for sc in explore2("%s_collide" % kind, kind, n, s_, th, c, mr, rr, pre_streams=2):
            sc["probe"] = n
            out.append(sc)
        return out
    run_multi(c, MULTI_OGRE, build, ["InvRejectedSetterUninvoked", "InvAtMostOncePerListener", "InvNoInvention", "InvAllDelivered", "InvCapacityRestored", "InvNoStall", "NoPanic"], procs=5)


def C20_multi(c):
    quick = c.tier == "quick"
    mr, rr = (120, 80) if quick else (2500, 1500)

    def build(kind):
        out = []
        n, s_ = 4, 2
        th = [[SA(11, -1)], [S(21), SW(22)], [DRIVE(0, max_=2)], [POLL(1), POLL(1)]]
        out += explore2("%s_never" % kind, kind, n, s_, th, c, mr, rr, pre_streams=2)
        th3 = [[SA(11, 3)], [S(21), SW(22)], [DRIVE(0, max_=3)], [DRIVE(1, max_=3)]]
        out += explore2("%s_later" % kind, kind, n, s_, th3, c, mr, rr, seed_extra=5, pre_streams=2)
        th4 = [[SA(11, -1)], [SA(21, 1), S(22)], [DRIVE(0, max_=2)], [DRIVE(1, max_=2)]]
        out += explore2("%s_async2" % kind, kind, n, s_, th4, c, mr, rr, seed_extra=9, pre_streams=2)
        return out
    run_multi(c, MULTI_NONLOG, build, ["InvNoStall", "InvNoLostWakeup", "InvAtMostOncePerListener", "InvNoInvention", "NoPanic"], procs=4, expect_stalls=True)


def hscn(id_, pre, threads, explore):
    return {"id": id_, "sut": "ogre_handles", "n": 4, "s": 1, "origin": 0, "pre": pre, "record_ops": True, "max_steps": 2000,
            "threads": [{"name": "t%d" % i, "ops": ops} for i, ops in enumerate(threads)], "explore": explore}


def judge_l2l1(c, scns, name, trace, runs, v, l2_module, l2_consts, l1_module, l1_consts):
    """verdicts of a trace spec that carries L1 rules on top of an L2 model: violations are violations; runs the L2 model cannot follow
       (drift) -- and runs the validation did not get to -- are re-judged by the L1-only oracle"""
    def report(x, module, consts):
        s2 = dict([s for s in scns if s["id"] == x["run"]["scn"]][0])
        s2["explore"] = {"mode": "replay", "schedules": [x["run"]["choices"]]}
        c.violation("%s violated by the real code (scenario %s, run %d)" % (x["inv"], x["run"]["scn"], x["run"]["run"]),
                    {"scenario": s2, "run": x["run"], "events": extract_run(trace, x["run"]), "module": module, "consts": {k: tla_val(q) for k, q in consts.items()}, "invariant": x["inv"]})
    for x in v["violations"]:
        report(x, l2_module, l2_consts)
    rest = [m["run"] for m in v["mismatches"]] + list(v.get("unvalidated", []))
    if v["mismatches"]:
        c.drift.append("%s: %d run(s) of the real code are not behaviours of %s (first unmatched event: %s)" % (name, len(v["mismatches"]), l2_module, json.dumps(v["mismatches"][0]["event"])[:300]))
    if rest:
        c.tool_errors[:] = [e for e in c.tool_errors if not str(e).startswith("UNVALIDATED[%s]" % name)]
        sub, sub_runs = subtrace(trace, rest, "l1")
        v1 = validate_trace(sub, sub_runs, l1_module, l1_consts, "%s_%s_l1" % (c.prop, name), parallel=8)
        c.tv_states += v1["states"]
        for e in v1["errors"]:
            c.tool_errors.append("L1 re-validation %s: %s" % (name, e))
        for x in v1["mismatches"]:
            c.tool_errors.append("L1 trace spec %s cannot read a recorded history (%s)" % (l1_module, json.dumps(x["event"])[:200]))
        log("[conf] %-22s %-20s runs %6d (L1-only oracle for the runs %s cannot follow) ok %6d l1-viol %3d" % (name, l1_module, len(sub_runs), l2_module, v1["runs_ok"], len(v1["violations"])))
        for x in v1["violations"]:
            # map the run back to its place in the full trace
            orig = [r for r in rest if r["scn"] == x["run"]["scn"] and r["run"] == x["run"]["run"]][0]
            report(dict(x, run=orig), l1_module, l1_consts)


def C14(c):
    quick = c.tier == "quick"
    names = ['"a"', '"b"', '"c"', '"d"', '"e"']
    inv = ["InvNotFreedWhileHeld", "InvCtlNotUsedAfterFree", "InvRefCount", "InvCounter", "InvFreedAtEnd"]
    for script in ("Script_3t", "Script_3t2", "Script_hand", "Script_shared"):
        c.mc("MC_OgreArc", script, {"Procs": [0, 1, 2], "Names": names}, subst={"Script": script}, invariants=inv,
             required_actions=["MCCall", "CloneFA", "DropFS"] + (["DropDealloc"] if script == "Script_3t" else []), timeout=1200, workers=8)
    H = lambda name, **kw: dict({"op": name, "v": 0, "i": 0}, **kw)
    mr, rr = (400, 300) if quick else (8000, 6000)
    scns = []
    # two initial handles, cloned / dropped / dereferenced / counted on three threads
    pre2 = [H("new2", v=7, to="a", to2="b")]
    th1 = [[H("clone", **{"from": "a", "to": "c"}), H("deref", h="c"), H("drop", h="a"), H("refs", h="c"), H("drop", h="c")],
           [H("deref", h="b"), H("clone", **{"from": "b", "to": "d"}), H("drop", h="d"), H("drop", h="b")]]
    th2 = [[H("incr", **{"from": "a", "tos": ["c", "d"]}), H("drop", h="c"), H("deref", h="d"), H("drop", h="a"), H("drop", h="d")],
           [H("refs", h="b"), H("clone", **{"from": "b", "to": "e"}), H("drop", h="b")],
           [H("nop")]]
    # a unique handle converted into a shared one, then shared
    pre3 = [H("newu", v=9, to="a")]
    th3 = [[H("deref", h="a"), H("into_arc", h="a"), H("refs", h="a"), H("clone", **{"from": "a", "to": "b"}), H("drop", h="a"), H("deref", h="b"), H("drop", h="b")]]
    th4 = [[H("deref", h="a"), H("drop", h="a")]]
    # ONE handle used through a shared reference by two threads at once (OgreArc is Sync): concurrent clones / bulk increments of a sole owner
    pre1 = [H("new", v=5, to="a")]
    th5 = [[H("clone", **{"from": "a", "to": "b"}), H("deref", h="b"), H("drop", h="b")],
           [H("clone", **{"from": "a", "to": "c"}), H("refs", h="c"), H("drop", h="c")],
           [H("deref", h="a")]]
    th6 = [[H("clone", **{"from": "a", "to": "b"}), H("drop", h="b")],
           [H("incr", **{"from": "a", "tos": ["c", "d"]}), H("drop", h="c"), H("drop", h="d")]]
    for nm, pre, th in (("t1", pre2, th1), ("t2", pre2, th2), ("u1", pre3, th3), ("u2", pre3, th4), ("s1", pre1, th5), ("s2", pre1, th6)):
        scns.append(hscn("handles_%s_dfs" % nm, pre, th, dfs(3, mr)))
        if len(th) > 1:
            scns.append(hscn("handles_%s_rnd" % nm, pre, th, rnd(rr, c.seed * 100 + len(nm))))
    consts = {"Procs": [0, 1, 2], "Names": names}
    trace, runs, v = c.conform(scns, "ogre_handles", "Trace_OgreArc", consts)
    # every verdict of Trace_OgreArc is an L1 rule; runs that no longer follow the L2 counter protocol (drift) are re-judged by the L1-only
    # oracle Trace_AbsHandles
    judge_l2l1(c, scns, "ogre_handles", trace, runs, v, "Trace_OgreArc", consts, "Trace_AbsHandles", consts)
    sample_run(c, trace, runs, scns, "validated execution of the real OgreArc / OgreUnique handles")

    # specification -> implementation: every transition of the reference-counting state graph replayed into the real handles
    def jh(scns_, nm, trace_, runs_, v_):
        judge_l2l1(c, scns_, nm, trace_, runs_, v_, "Trace_OgreArc", consts, "Trace_AbsHandles", consts)
    cv1 = [[H("clone", **{"from": "a", "to": "c"}), H("drop", h="a"), H("refs", h="c"), H("drop", h="c")],
           [H("clone", **{"from": "b", "to": "d"}), H("drop", h="d"), H("drop", h="b")], [H("nop")]]
    cv2 = [[H("incr", **{"from": "a", "tos": ["c", "d"]}), H("drop", h="c"), H("drop", h="a"), H("drop", h="d")],
           [H("refs", h="b"), H("clone", **{"from": "b", "to": "e"}), H("drop", h="b"), H("drop", h="e")], [H("nop")]]
    cover.cover_handles(c, "handles_cover1", pre2, [t for t in cv1[:2]], jh)
    cover.cover_handles(c, "handles_cover2", pre2, [t for t in cv2[:2]], jh)
    c.assumptions.append("one pooled value per run; destruction is observed through the instrumented payload (drop counter, alive marker) and the wrapper allocator")


def C19(c):
    quick = c.tier == "quick"
    inv = ["InvCount", "InvNoLostUpdate", "InvProbePair", "InvFinalCount"]
    c.mc("MC_IncAvg", "Script_2r1p", {"Procs": [0, 1, 2]}, subst={"Script": "Script_2r1p"}, invariants=inv, required_actions=["MCCall", "IncCasOk", "IncCasFail", "ProbeLoad"], timeout=1200, workers=8)
    if not quick:
        c.mc("MC_IncAvg", "Script_3r1p", {"Procs": [0, 1, 2, 3]}, subst={"Script": "Script_3r1p"}, invariants=inv, required_actions=["MCCall", "IncCasOk", "IncCasFail", "ProbeLoad"], timeout=3000, workers=10)
    INC = lambda m: {"op": "inc", "m": m, "v": 0, "i": 0}
    PR = {"op": "probe", "v": 0, "i": 0}
    mr, rr = (500, 400) if quick else (10000, 8000)
    scripts = [("3r1p", [[INC(0.5), INC(2.25)], [INC(3.0), INC(0.5)], [INC(-1.0), INC(4.125)], [PR, PR]]),
               ("2r1p", [[INC(1.5), INC(2.0), INC(5.75)], [INC(3.0), INC(-1.0)], [PR, PR, PR]]),
               ("sent", [[INC(-1.0), INC(-1.0)], [INC(-1.0)], [PR, INC(0.125), PR]])]
    scns = []
    for i, (nm, th) in enumerate(scripts):
        scns.append({"id": "avg_%s_dfs" % nm, "sut": "inc_avg", "n": 2, "s": 1, "origin": 0, "record_ops": True, "threads": [{"name": "t%d" % k, "ops": ops} for k, ops in enumerate(th)], "explore": dfs(3, mr)})
        scns.append({"id": "avg_%s_rnd" % nm, "sut": "inc_avg", "n": 2, "s": 1, "origin": 0, "record_ops": True, "threads": [{"name": "t%d" % k, "ops": ops} for k, ops in enumerate(th)], "explore": rnd(rr, c.seed * 10 + i)})
    consts = {"Procs": [0, 1, 2, 3]}
    trace, runs, v = c.conform(scns, "inc_avg", "Trace_IncAvg", consts)
    judge_l2l1(c, scns, "inc_avg", trace, runs, v, "Trace_IncAvg", consts, "Trace_AbsAvg", consts)
    sample_run(c, trace, runs, scns, "validated execution of the real AtomicIncrementalAverage64")

    # specification -> implementation: every transition of the CAS-retry state graph replayed into the real metric
    def ja(scns_, nm, trace_, runs_, v_):
        judge_l2l1(c, scns_, nm, trace_, runs_, v_, "Trace_IncAvg", consts, "Trace_AbsAvg", consts)
    cover.cover_avg(c, "avg_2r1p", [[INC(1.5), INC(2.0)], [INC(3.0), INC(-1.0)], [PR, PR]], ja)
    if not quick:
        cover.cover_avg(c, "avg_3r", [[INC(1.5), INC(2.0)], [INC(3.0)], [INC(-1.0), PR]], ja)
    c.assumptions.append("TLC has no floats: the average is symbolic in the model; the harness re-computes, with the library's own f32 formula, whether a probed (count, average) pair is the fold of some "
                         "interleaving of per-thread prefixes (bit-exact), and checks the final mean in f64 within 1e-3 relative tolerance -- the one clause of C19 that TLA+ does not decide")


EXEC_C11 = ["InvItemStartedOnce", "InvConcurrencyLimit", "InvOneOutcomePerItem", "InvNoSpuriousCancel", "InvErrCallbackExactlyOnce", "InvAllItemsProcessed", "InvOutcomeMatches",
            "InvCountersAddUp", "NoPanic"]
EXEC_C12 = ["InvCloseCallbackOnce", "InvCloseCallbackAfterLastItem", "InvNoItemAfterClose", "InvEndedStatus", "InvFinishAfterStart", "InvUniCloseOnce", "InvSequentialTransition", "NoPanic"]
EXEC_C06 = ["InvCloseWaits", "InvCloseReturnsTrue", "InvClosedAfterwards", "InvNoEventDiscarded", "InvLateEventOnlyToLiveListeners", "NoPanic"]
EXEC_KINDS = ["fut_fallible", "fut", "fallible", "nonfut_fallible", "plain"]


def exec_cases_c11(seed, quick):
    import itertools, random
    rng = random.Random(seed)
    cases = []
    maxlen = 3 if quick else 4
    seqs = []
    for ln in range(0, maxlen + 1):
        seqs += list(itertools.product(["ok", "err", "slow", "slowerr"], repeat=ln))
    if quick:
        seqs = [s for s in seqs if len(s) <= 2] + rng.sample([s for s in seqs if len(s) == 3], 24)
    k = 0
    for kind in EXEC_KINDS:
        fut = kind in ("fut_fallible", "fut")
        for items in seqs:
            for timeout in ((False, True) if fut else (False,)):
                for instr in ((7, 0, 11) if quick else (7, 0, 32, 103, 11, 107)):
                    for limit in ((1, 2, 3) if fut else (1, 2)):
                        if quick and rng.random() < 0.6 and len(items) == 3:
                            continue
                        n = len(items)
                        order = list(range(n))
                        rng.shuffle(order)          # items complete out of order
                        k += 1
                        cases.append({"id": "x%d_%s_%s_t%d_i%d_l%d" % (k, kind, "".join(i[0] if i != "slowerr" else "S" for i in items) or "none", int(timeout), instr, limit),
                                      "fam": "exec", "kind": kind, "timeout": timeout, "instr": instr, "limit": limit, "items": list(items), "release": order, "runtime": "current"})
    # the concurrency limit itself, 1..8: more gated items than the limit allows in progress
    for kind in ("fut_fallible", "fut"):
        for limit in range(1, 9):
            for timeout in (False, True):
                n = limit + 2
                k += 1
                cases.append({"id": "x%d_%s_sweep_t%d_l%d" % (k, kind, int(timeout), limit), "fam": "exec", "kind": kind, "timeout": timeout, "instr": 7, "limit": limit,
                              "items": ["ok"] * n, "release": list(range(n)), "runtime": "current"})
    # every instrument setting of the crate against one sequence that contains every kind of item (each executor kind, with and without timeout)
    for kind in EXEC_KINDS:
        fut = kind in ("fut_fallible", "fut")
        for instr in (0, 32, 103, 107, 7, 11):
            for timeout in ((False, True) if fut else (False,)):
                items = ["ok", "err", "slow", "ok", "slowerr", "ok"]
                k += 1
                cases.append({"id": "x%d_%s_instr%d_t%d" % (k, kind, instr, int(timeout)), "fam": "exec", "kind": kind, "timeout": timeout, "instr": instr, "limit": 2 if fut else 1,
                              "items": items, "release": [1, 0, 3, 2, 5, 4], "runtime": "current"})
    # the same futures on the multi-thread runtime (outcomes do not depend on timing: items are gated)
    for i, c_ in enumerate(rng.sample(cases, 24 if quick else 200)):
        if c_["kind"] in ("fut_fallible", "fut"):
            d = dict(c_)
            d["id"] = c_["id"] + "_mt"
            d["runtime"] = "multi"
            cases.append(d)
    return cases


def judge_exec(c, name, cases, trace, runs, v, consts):
    by_id = {x["id"]: x for x in cases}
    for x in v["mismatches"]:
        c.tool_errors.append("the L1 trace spec Trace_AbsExecutor cannot read a recorded history of %s (line %d: %s)" % (name, x["line"], json.dumps(x["event"])[:300]))
    for x in v["violations"]:
        case = by_id[x["run"]["scn"]]
        k = None
        for kf in load_known_findings():
            m = kf.get("match_exec")
            if kf.get("status") == "open" and m and x["inv"] in m["invariants"] and case.get("fam") in m["fams"] and case.get("kind") in m["kinds"] and case.get("limit", 1) >= m["min_limit"]:
                k = kf
        if k is not None:
            c.known_finding(k["id"], k.get("short", k["what"][:160]))
            if not any(sm.get("id") == k["id"] for sm in c.samples):
                c.sample({"kind": "known-finding trace", "id": k["id"], "case": case, "invariant": x["inv"]})
            continue
        c.violation("%s violated by the real code (case %s)" % (x["inv"], case["id"]),
                    {"scenario": {"id": case["id"], "free": case, "sut": "exec"}, "run": x["run"], "events": extract_run(trace, x["run"]), "module": "Trace_AbsExecutor",
                     "consts": {k2: tla_val(q) for k2, q in consts.items()}, "invariant": x["inv"], "recorded_only": False, "exec_case": case})


def conform_exec(c, name, cases, checks):
    consts = {"Checks": ['"%s"' % x for x in checks], "MaxId": 7777}
    trace, runs, v = c.conform(None, name, "Trace_AbsExecutor", consts, exec_cases=cases)
    judge_exec(c, name, cases, trace, runs, v, consts)
    if runs:
        r = runs[len(runs) // 3]
        c.sample({"kind": "validated life-cycle history of the real executor (%s)" % name, "case": [x for x in cases if x["id"] == r["scn"]][0],
                  "events": [{k: e[k] for k in ("k", "a", "b", "x")} for e in extract_run(trace, r)[:40]]})
    return trace, runs, v


def C11(c):
    quick = c.tier == "quick"
    c.mc("MC_Executor", "fut_l2", {"Limit": 2, "Futures": True, "Fallible": True, "TimeoutOn": True, "HasErrCb": True}, subst={"Items": "ItemsA"}, invariants=["InvInFlight", "InvOneOutcome", "InvErrCb", "InvCounters", "InvCloseOnceAtEnd"],
         init="Init", next_="Next", required_actions=["Start", "FinishOk", "FinishErr", "TimeOut", "ErrCallback", "CloseCallback"], timeout=600, workers=6)
    if not quick:
        c.mc("MC_Executor", "fut_l3_D", {"Limit": 3, "Futures": True, "Fallible": True, "TimeoutOn": True, "HasErrCb": True}, subst={"Items": "ItemsD"},
             invariants=["InvInFlight", "InvOneOutcome", "InvErrCb", "InvCounters", "InvCloseOnceAtEnd"], init="Init", next_="Next", timeout=600, workers=6)
    c.mc("MC_Executor", "fut_l3_nt", {"Limit": 3, "Futures": True, "Fallible": True, "TimeoutOn": False, "HasErrCb": True}, subst={"Items": "ItemsB"}, invariants=["InvInFlight", "InvOneOutcome", "InvErrCb", "InvCounters", "InvCloseOnceAtEnd"],
         init="Init", next_="Next", required_actions=["Start", "FinishOk", "FinishErr", "ErrCallback", "CloseCallback"], timeout=600, workers=6)
    c.mc("MC_Executor", "plain_l1", {"Limit": 1, "Futures": False, "Fallible": False, "TimeoutOn": False, "HasErrCb": False}, subst={"Items": "ItemsC"}, invariants=["InvInFlight", "InvOneOutcome", "InvErrCb", "InvCounters", "InvCloseOnceAtEnd"],
         init="Init", next_="Next", required_actions=["Start", "FinishOk", "CloseCallback"], timeout=600, workers=6)
    cases = exec_cases_c11(c.seed * 17, quick)
    conform_exec(c, "executors", cases, EXEC_C11 + ["InvCloseCallbackOnce"])
    c.assumptions.append("item futures wait on gates owned by the driver (no timing dependence); a 'slow' item under a timeout is a future that never completes and must be cancelled (drop guard); "
                         "current-thread runtime with paused (virtual) clock, plus the multi-thread runtime for a sample of the futures cases")


UNI_CHANS = ["move_atomic", "move_fullsync", "move_crossbeam", "zc_atomic", "zc_fullsync"]
MULTI_CHANS = ["arc_atomic", "arc_fullsync", "arc_crossbeam", "ogre_atomic", "ogre_fullsync", "mmap"]


def lifecycle_cases(quick, seed):
    import random
    rng = random.Random(seed)
    cases = []
    k = 0
    for chan in UNI_CHANS:
        for s_ in (1, 2):
            for kind in ("fut_fallible", "fut", "fallible", "plain"):
                for limit in ((1, 2) if quick else (1, 2, 3, 4)):
                    if kind in ("fallible", "plain") and limit > 1:
                        continue
                    for events in ([], [11], [11, 12, 13]):
                        if quick and rng.random() < 0.5 and events:
                            continue
                        k += 1
                        cases.append({"id": "u%d_%s_s%d_%s_l%d_e%d" % (k, chan, s_, kind, limit, len(events)), "fam": "uni", "chan": chan, "s": s_, "kind": kind, "timeout": False, "limit": limit,
                                      "events": events, "slow": [], "fails": [12] if kind in ("fut_fallible", "fallible") else [], "runtime": "current"})
    for chan in MULTI_CHANS:
        for listeners in (1, 2):
            for limit in ((1, 2) if quick else (1, 2, 3)):
                for events in ([11], [11, 12, 13]):
                    for mode in ("close", "cancel_one"):
                        if mode == "cancel_one" and listeners == 1:
                            continue
                        k += 1
                        cases.append({"id": "m%d_%s_L%d_l%d_e%d_%s" % (k, chan, listeners, limit, len(events), mode), "fam": "multi", "chan": chan, "kind": "fut_fallible", "limit": limit, "listeners": listeners,
                                      "events": events, "old_events": [], "fails": [12], "mode": mode, "sequential": False, "runtime": "current"})
    for sequential in (True, False):
        for limit in (1, 2):
            for old, new in (([11, 12], [21, 22]), ([11], [21]), ([], [21]), ([11, 12], [])):
                k += 1
                cases.append({"id": "m%d_mmap_oldies_seq%d_l%d_o%dn%d" % (k, int(sequential), limit, len(old), len(new)), "fam": "multi", "chan": "mmap", "kind": "fut_fallible", "limit": limit, "listeners": 2,
                              "events": new, "old_events": old, "fails": [], "mode": "oldies", "sequential": sequential, "runtime": "current"})
    # streams / listeners that end well apart from each other while close is waiting (limit 1, one event in flight per pipeline):
    # whichever order they finish in, close returns only after the last one
    for chan in MULTI_CHANS:
        for listeners, order in ((2, [0, 1]), (2, [1, 0]), (3, [0, 2, 1]), (3, [1, 0, 2]), (3, [2, 1, 0])):
            k += 1
            cases.append({"id": "m%d_%s_L%d_stagger%s" % (k, chan, listeners, "".join(map(str, order))), "fam": "multi", "chan": chan, "kind": "fut_fallible", "limit": 1, "listeners": listeners,
                          "events": [11], "old_events": [], "fails": [], "mode": "close", "sequential": False, "release_order": order, "runtime": "current"})
    for chan in UNI_CHANS:
        for pre in ([11], [12]):
            for kind in ("fut_fallible", "fut"):
                k += 1
                cases.append({"id": "u%d_%s_s2_%s_idle%d" % (k, chan, kind, pre[0]), "fam": "uni", "chan": chan, "s": 2, "kind": kind, "timeout": False, "limit": 1,
                              "events": [11, 12], "slow": [], "fails": [], "pre_release": pre, "runtime": "current"})
    extra = []
    for c_ in rng.sample(cases, 16 if quick else 120):
        d = dict(c_)
        d["id"] = c_["id"] + "_mt"
        d["runtime"] = "multi"
        extra.append(d)
    return cases + extra


def C12(c):
    quick = c.tier == "quick"
    c.mc("MC_Executor", "life_fut", {"Limit": 2, "Futures": True, "Fallible": True, "TimeoutOn": False, "HasErrCb": True}, subst={"Items": "ItemsC"}, invariants=["InvCloseOnceAtEnd", "InvStatus", "InvOneOutcome"],
         init="Init", next_="Next", required_actions=["Start", "CloseCallback", "StreamEnds"], timeout=600, workers=6)
    c.mc("UniLatch", "latch3", {"S": 3}, invariants=["InvFiresOnce", "InvFiresAfterAll"], init="Init", next_="Next", required_actions=["FetchSub", "Fire"], timeout=600, workers=6)
    cases = [x for x in exec_cases_c11(c.seed * 19, True) if len(x["items"]) <= 2][:150] + lifecycle_cases(quick, c.seed * 23)
    conform_exec(c, "lifecycle", cases, EXEC_C12)


def C06(c):
    quick = c.tier == "quick"
    c.mc("CloseProto", "close_fut_l2", {"Limit": 2, "NEvents": 2, "WaitExecutors": False}, invariants=["InvTypes"], properties=[], init="Init", next_="Next",
         required_actions=["Pull", "Finish", "CloseReturns"], timeout=600, workers=6)
    r = c.mc("CloseProto", "close_strict", {"Limit": 2, "NEvents": 1, "WaitExecutors": False}, invariants=["InvCloseWaits"], init="Init", next_="Next", expect="kf", timeout=600, workers=6)
    if r["ok"]:
        c.notes.append("the recorded finding KF-C06 is no longer reproduced by the CloseProto model")
    c.mc("CloseProto", "close_l1", {"Limit": 1, "NEvents": 2, "WaitExecutors": False}, invariants=["InvCloseWaits"], init="Init", next_="Next", required_actions=["Pull", "Finish", "CloseReturns"], timeout=600, workers=6)
    c.mc("CloseProto", "close_repaired", {"Limit": 3, "NEvents": 2, "WaitExecutors": True}, invariants=["InvCloseWaits"], init="Init", next_="Next", required_actions=["Pull", "Finish", "CloseReturns"], timeout=600, workers=6)
    conform_exec(c, "close", lifecycle_cases(quick, c.seed * 29), EXEC_C06)
    C06_cover(c)
    C06_sched(c)


UNICHAN_CLOSE_INV = ("InvLinearizable", "InvBounds", "InvChanTypes", "InvWakersLock", "InvSmLocks", "InvRunningCount", "InvNoLoss", "InvCancelEnds", "InvCloseWaits", "InvClosedAfterwards")


def C06_cover(c):
    """specification -> implementation for the close protocol: UniChan (L2) now contains gracefully_end_all_streams (flush loop: pending count,
       wake every stream, sleep; cancel_all_streams; wait until the running-streams count is zero), is_channel_open / running_streams_count and the
       drop of a stream (report_stream_dropped + the rebuild of the used-streams list).  TLC checks InvCloseWaits / InvClosedAfterwards on every
       reachable state of the small configurations; every transition of the state graph is replayed into the real movable atomic Uni channel,
       validated operation by operation against UniChan and judged by the L1 close verdicts of Trace_AbsUni."""
    quick = c.tier == "quick"
    l1 = ["InvCloseWaits", "InvClosedAfterwards", "InvDeliveredAtMostOnce", "NoPanic"]
    CLOSE = op("close")
    cover.cover_unichan(c, "unichan_close", [[S(11)], [CLOSE], [DRIVE(0, max_=9), DROPS(0)]], l1, invariants=UNICHAN_CLOSE_INV, max_paths=4000 if quick else None)
    cover.cover_unichan(c, "unichan_close_buffered", [[S(11), S(12), CLOSE], [DRIVE(0, max_=9), DROPS(0)]], l1, invariants=UNICHAN_CLOSE_INV, max_paths=2500 if quick else None)
    # the same protocol on the Arc-based atomic Multi channel (MultiChan, L2): the pending count is the longest of the listed listeners' rings
    m_inv = tuple(MCH_STRUCT) + ("InvNoDuplicates", "InvProducerOrder", "InvNothingOld", "InvCancelEnds", "InvCloseWaits", "InvClosedAfterwards")
    m_l1 = ["InvCloseWaits", "InvClosedAfterwards", "InvAtMostOncePerListener", "InvNoInvention", "NoPanic"]
    cover.cover_multichan(c, "multichan_close", [[S(11)], [CLOSE], [DRIVE(0, max_=9), DROPS(0)]], m_l1, initial=1, invariants=m_inv, max_paths=1500 if quick else None)
    if not quick:
        cover.cover_multichan(c, "multichan_ogre_close", [[S(11)], [CLOSE], [DRIVE(0, max_=9), DROPS(0)]], m_l1 + ["InvNoUseAfterFree"], initial=1, kind="ogre", max_paths=20000,
                              invariants=m_inv + ("InvNoUseAfterFree", "InvPoolBounds"))
        # (two listeners dropped while the producer sends: the delivery invariants are the recorded churn finding's business, not checked here)
        c.mc("MC_MultiChan", "close2", multichan(4, 2), subst={"Script": "Script_close2"}, deadlock=False,
             invariants=["InvRingBounds", "InvLocks", "InvNeverFull", "NoPanic", "InvCancelEnds", "InvCloseWaits", "InvClosedAfterwards"],
             required_actions=["CloseLenHead", "CloseWakePeek", "CloseRunLoad", "CloseOpenRead", "MCSlept"], timeout=2400, workers=10, heap="12g")
        cover.cover_unichan(c, "unichan_close_2ev", [[S(11), S(12)], [CLOSE], [DRIVE(0, max_=9), DROPS(0)]], l1, invariants=UNICHAN_CLOSE_INV, max_paths=30000)
        # two streams racing for one event while close runs (3.3 M states): design-level verdict only, too large for a graph dump
        kf = kf_open(KF_SPURIOUS_EMPTY) is not None
        c.mc("MC_UniChan", "close_s2", {"N": 4, "W": 16, "Procs": [0, 1, 2, 3], "Origins": [0], "OverflowChecks": True, "RelaxEmpty": kf, "Prefill": False, "Mode": '"fifo"', "MaxS": 2},
             subst={"Script": "Script_close_s2"}, invariants=list(UNICHAN_CLOSE_INV), deadlock=False,
             required_actions=["CloseLenHead", "CloseWakePeek", "CloseRunLoad", "CloseOpenRead", "DropCountB", "SyncWrite", "MCSlept"], timeout=2400, workers=10, heap="12g")


def C06_sched(c):
    """gracefully_end_all_streams (what Uni::close / Multi::close call) under the deterministic scheduler: the closing thread's polling loops
       (flush: pending? wake all, sleep; cancel; running? sleep) interleaved step by step with producers and with hand-driven streams at every
       point of their polls (between consume and the keep-running check, during waker registration, parked); every `sleep` of the loops is a
       scheduling point after which the closer goes on once somebody else has moved (or nobody else can).  L1: when close returns, every event
       accepted before it was called has been yielded (Uni: by some stream; Multi: by every listener entitled to it), no stream is left and the
       channel reports itself closed."""
    quick = c.tier == "quick"
    mr, rr = (250, 150) if quick else (1200, 800)
    CLOSE = op("close")

    def build_u(kind):
        out = []
        for n, s_ in ((4, 1), (4, 2)):
            th = [[S(11), S(12)], [CLOSE, op("is_open")]] + [[DRIVE(i), DROPS(i)] for i in range(s_)]
            out += explore2("%s_n%ds%d_close" % (kind, n, s_), kind, n, s_, th, c, mr, rr, pre_streams=s_)
            # events already buffered when close starts, a stream that has not polled yet
            th = [[S(11), S(12), S(13), CLOSE, op("running")]] + [[DRIVE(i), DROPS(i)] for i in range(s_)]
            out += explore2("%s_n%ds%d_close_buffered" % (kind, n, s_), kind, n, s_, th, c, mr, rr, seed_extra=3, pre_streams=s_)
        # the same with the sequence counters about to wrap: the buffered events straddle 2^32 when close starts
        th = [[S(11), S(12), S(13), CLOSE, op("running")], [DRIVE(0), DROPS(0)]]
        for sc in explore2("%s_n4s1_close_buffered_wrap" % kind, kind, 4, 1, th, c, max(20, mr // 5), max(20, rr // 5), seed_extra=4, pre_streams=1):
            sc["origin"] = U32 - 2
            out.append(sc)
        return out

    def build_m(kind):
        out = []
        for n, s_, nl in ((4, 2, 1), (4, 2, 2)) + (() if quick else ((4, 4, 3),)):
            p1 = [S(11), S(12)]
            th = [p1, [CLOSE, op("is_open")]] + [[DRIVE(i), DROPS(i)] for i in range(nl)]
            out += explore2("%s_s%dl%d_close" % (kind, s_, nl), kind, n, s_, th, c, mr, rr, pre_streams=nl)
            th = [[S(11), S(12), S(13), CLOSE, op("running")]] + [[DRIVE(i), DROPS(i)] for i in range(nl)]
            out += explore2("%s_s%dl%d_close_buffered" % (kind, s_, nl), kind, n, s_, th, c, mr, rr, seed_extra=3, pre_streams=nl)
        th = [[S(11), S(12), S(13), CLOSE, op("running")], [DRIVE(0), DROPS(0)], [DRIVE(1), DROPS(1)]]
        for sc in explore2("%s_s2l2_close_buffered_wrap" % kind, kind, 4, 2, th, c, max(20, mr // 5), max(20, rr // 5), seed_extra=4, pre_streams=2):
            sc["origin"] = U32 - 2
            out.append(sc)
        return out
    run_uni(c, UNI_KINDS, build_u, ["InvCloseWaits", "InvClosedAfterwards", "InvDeliveredAtMostOnce", "NoPanic"])
    run_multi(c, MULTI_KINDS, build_m, ["InvCloseWaits", "InvClosedAfterwards", "InvAtMostOncePerListener", "InvNoInvention", "NoPanic"], procs=5, tag="_close")


CHECKS = {"C11": C11, "C12": C12, "C06": C06, "C19": C19, "C14": C14, "C05": C05, "C09": C09, "C03": C03, "C10": C10, "C17": C17, "C04": C04, "C07": C07, "C08": C08, "C16": C16, "C20": C20, "C02": C02, "C13": C13, "C18": C18, "C15": C15, "C01": C01}
