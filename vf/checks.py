"""One function per property: what is model-checked, what is run on the real code, how it is judged."""
import json, os
from .core import *
from .queues import *

ALL_ORIGINS8 = list(range(8))


def ring_consts(n=2, w=8, procs=4, origins=(0,), relax=True, prefill=False, checks=True, mode="fifo"):
    return {"N": n, "W": w, "Procs": list(range(procs)), "Origins": list(origins), "OverflowChecks": checks, "RelaxEmpty": relax, "Prefill": prefill, "Mode": '"%s"' % mode}


def fs_consts(n=2, w=8, procs=4, origins=(0,), relax=False, prefill=False, mode="fifo", checks=True):
    return {"N": n, "W": w, "Procs": list(range(procs)), "Origins": list(origins), "RelaxEmpty": relax, "Prefill": prefill, "Mode": '"%s"' % mode}


RING_INV = ["TypeOK", "InvBounds", "InvLinearizable", "InvContents", "NoPanic"]
RING_ACTIONS_Q = ["MCCall"]


def conform_ring(c, name, sut, scripts, module, consts_fn, n=2, origins=(0,), bound=2, max_runs=800, rnd_runs=300, profile="debug", prefill=False, relax_kf=True, mode="fifo"):
    """runs the given thread scripts on the real ring / pool under DFS (preemption-bounded) and random schedules,
       validates every execution against the L2 trace spec (strict L1 rule) and judges the outcome"""
    scns = []
    for oi, o in enumerate(origins):
        for si, (sname, threads) in enumerate(scripts):
            scns.append(scn("%s_%s_o%d_dfs" % (name, sname, oi), sut, n, threads, dfs(bound, max_runs), origin=o))
            if rnd_runs:
                scns.append(scn("%s_%s_o%d_rnd" % (name, sname, oi), sut, n, threads, rnd(rnd_runs, c.seed * 1000 + si * 10 + oi + 1), origin=o))
    nthreads = max(len(t) for _, t in scripts)
    consts = consts_fn(n=n, w=64, procs=nthreads, origins=(0,), relax=False, prefill=prefill, mode=mode, checks=(profile == "debug"))
    trace, runs, v = c.conform(scns, name, module, consts, profile=profile)
    judge(c, scns, name, trace, runs, v, module, consts, allow_relax=relax_kf)
    sample_run(c, trace, runs, scns, "validated execution of the real code (%s)" % sut)
    return trace, runs, v


def C02(c):
    quick = c.tier == "quick"
    # --- design level: every interleaving of the atomic-operation actions, all counter origins (wrap included)
    origins = [0, 6, 7] if quick else ALL_ORIGINS8
    kf = kf_open(KF_SPURIOUS_EMPTY) is not None
    for script, procs in (("Script_1p2c", 3), ("Script_2p1c", 3)) + ((("Script_len", 3),) if quick else (("Script_len", 3), ("Script_2p2c", 4), ("Script_3p1c", 4))):
        c.mc("MC_RingAtomic", script, ring_consts(procs=procs, origins=origins, relax=kf), subst={"Script": script}, invariants=RING_INV,
             required_actions=["MCCall"], timeout=3000, workers=10)
    for script, procs in (("Script_1p2c", 3), ("Script_2p1c", 3), ("Script_len", 3)) + (() if quick else (("Script_2p2c", 4),)):
        c.mc("MC_RingFullSync", script, fs_consts(procs=procs, origins=origins), subst={"Script": script},
             invariants=["InvBounds", "InvLinearizable", "InvContents", "InvLockOwner"], required_actions=["MCCall"], timeout=3000, workers=10)
    if kf:
        # the recorded finding must still be what the strict rule rejects in the model (otherwise the entry is stale)
        r = c.mc("MC_RingAtomic", "Script_1p2c_strict", ring_consts(procs=3, origins=[0], relax=False), subst={"Script": "Script_1p2c"}, invariants=RING_INV, expect="kf")
        if r["ok"]:
            c.notes.append("known finding %s no longer reproduced by the model under the strict rule" % KF_SPURIOUS_EMPTY)
    # --- the real code: executions under the deterministic scheduler, validated by TLC
    big = U32 - 3
    scripts_a = [("2p2c", [[E(11), E(12)], [E(21), E(22)], [D, D], [D, D]]),
                 ("3p1c", [[E(11), E(12)], [E(21)], [E(31)], [D, D, D]]),
                 ("len", [[E(11), E(12), E(13)], [D, L, D], [L, D]])]
    mr, rr = (500, 200) if quick else (6000, 3000)
    conform_ring(c, "ring_atomic", "ring_atomic", scripts_a, "Trace_RingAtomic", ring_consts, origins=(0, big), max_runs=mr, rnd_runs=rr)
    conform_ring(c, "ring_fullsync", "ring_fullsync", scripts_a, "Trace_RingFullSync", fs_consts, origins=(0, big), max_runs=mr, rnd_runs=rr)
    if not quick:
        conform_ring(c, "ring_atomic_n4", "ring_atomic", [("2p2c4", [[E(11), E(12), E(13)], [E(21), E(22), E(23)], [D, D, D], [D, D]])], "Trace_RingAtomic", ring_consts,
                     n=4, origins=(0, U32 - 5), bound=3, max_runs=8000, rnd_runs=4000)
    c.assumptions.append("L1 oracle: LinQueue monitor (bounded FIFO, capacity rule of the statement); the recorded finding %s is tolerated only through the relaxed rule LqRelaxEmpty" % KF_SPURIOUS_EMPTY)


AL = op("alloc")
AW = lambda v: op("alloc_with", v)
FR = op("free")
FRR = op("free_ref")
FRL = op("free", last=True)


def C13(c):
    quick = c.tier == "quick"
    origins = [0, 5, 7] if quick else ALL_ORIGINS8
    kf = kf_open(KF_SPURIOUS_EMPTY) is not None
    pool_inv = RING_INV + ["InvOneOwner"]
    for script, procs in (("Script_pool2", 2), ("Script_pool3s", 3)) + (() if quick else (("Script_pool3", 3), ("Script_pool4", 4),)):
        c.mc("MC_RingAtomic", script, ring_consts(procs=procs, origins=origins, relax=kf, prefill=True, mode="bag"), subst={"Script": script}, invariants=pool_inv,
             required_actions=["MCCall", "DeqRecedeOk", "EnqPublish"], timeout=3000, workers=10)
        c.mc("MC_RingFullSync", script, fs_consts(procs=procs, origins=origins, prefill=True, mode="bag"), subst={"Script": script},
             invariants=["InvBounds", "InvLinearizable", "InvContents", "InvLockOwner", "InvOneOwner"], required_actions=["MCCall"], timeout=3000, workers=10)
    if not quick:
        c.mc("MC_RingAtomic", "Script_pool2_n4", ring_consts(n=4, w=16, procs=2, origins=[0, 13, 15], relax=kf, prefill=True, mode="bag"), subst={"Script": "Script_pool2"}, invariants=pool_inv, timeout=3000, workers=10)
    big = U32 - 3
    scripts = [("p3", [[AL, AL, FR, AL, FR, FR], [AL, FRR, AL, FR], [AW(7), AL, FRL, FRR]]),
               ("p2x", [[AL, AL, AL, FR, FR, AL], [AL, FR, AL, AL, FRR, FR]]),
               ("p4", [[AL, FR, AL, FRR], [AW(5), FR, AL, FR], [AL, FR], [AL, FRR]])]
    mr, rr = (400, 150) if quick else (5000, 2500)
    conform_ring(c, "pool_atomic", "pool_atomic", scripts, "Trace_RingAtomic", ring_consts, origins=(0, big), max_runs=mr, rnd_runs=rr, prefill=True, mode="bag")
    conform_ring(c, "pool_fullsync", "pool_fullsync", scripts, "Trace_RingFullSync", fs_consts, origins=(0, big), max_runs=mr, rnd_runs=rr, prefill=True, mode="bag")
    if not quick:
        for n in (4, 8):
            conform_ring(c, "pool_atomic_n%d" % n, "pool_atomic", scripts, "Trace_RingAtomic", ring_consts, n=n, origins=(0, U32 - n - 1), bound=3, max_runs=4000, rnd_runs=3000, prefill=True, mode="bag")
            conform_ring(c, "pool_fullsync_n%d" % n, "pool_fullsync", scripts, "Trace_RingFullSync", fs_consts, n=n, origins=(0, U32 - n - 1), bound=3, max_runs=4000, rnd_runs=3000, prefill=True, mode="bag")
    c.assumptions.append("L1 oracle: LinQueue monitor in 'bag' mode (an allocation may return any free id; never an owned one; fails only if every slot is owned or in transit at some instant of the call); "
                         "id<->reference bijection compared on the real pointers by the harness (flag `bij` judged by the trace spec)")


CHECKS = {"C02": C02, "C13": C13}
