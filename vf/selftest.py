"""Demonstrates that the specifications are bound to the code: a recorded trace with one corrupted field, or with one hook
event removed, must be rejected (DESIGN.md section 5.4)."""
import json, os
from .core import *
from .queues import E, D, scn, dfs
from . import checks


def run():
    build_harness("debug")
    os.makedirs(os.path.join(WORK, "tlc"), exist_ok=True)
    s = scn("selftest", "ring_atomic", 2, [[E(11), E(12)], [D, D]], dfs(1, 6))
    trace, runs, summ = run_harness([s], "selftest")
    consts = checks.ring_consts(n=2, w=64, procs=2, relax=False)
    ok = True
    v0 = validate_trace(trace, runs, "Trace_RingAtomic", consts, "selftest_base", parallel=1)
    log("[selftest] unmodified trace: %d runs ok, %d mismatches, %d violations" % (v0["runs_ok"], len(v0["mismatches"]), len(v0["violations"])))
    ok &= v0["runs_ok"] == len(runs) and not v0["mismatches"] and not v0["violations"]
    lines = open(trace).read().split("\n")
    # (i) corrupt one recorded API-level result: a dequeue that returned 11 now claims 12
    idx = next(i for i, l in enumerate(lines) if '"k":"ret"' in l and '"fn":"deq"' in l and '"v":11' in l)
    bad = list(lines)
    bad[idx] = bad[idx].replace('"v":11', '"v":12')
    p1 = trace + ".corrupt"
    open(p1, "w").write("\n".join(bad))
    v1 = validate_trace(p1, runs, "Trace_RingAtomic", consts, "selftest_corrupt", parallel=1)
    rejected1 = bool(v1["mismatches"] or v1["violations"])
    log("[selftest] corrupted result field (deq -> 12): %s" % ("REJECTED (%s)" % ((v1["violations"] or v1["mismatches"])[0].get("inv", "mismatch")) if rejected1 else "accepted -- BINDING BROKEN"))
    ok &= rejected1
    # and by the L1-only oracle as well
    l1 = checks.lin_consts(2, 2, "fifo")
    v1b = validate_trace(p1, runs, "Trace_LinQueue", l1, "selftest_corrupt_l1", parallel=1)
    rejected1b = bool(v1b["violations"])
    log("[selftest] same trace under the L1-only oracle: %s" % ("REJECTED (%s)" % v1b["violations"][0]["inv"] if rejected1b else "accepted -- L1 ORACLE TOO WEAK"))
    ok &= rejected1b
    # (ii) remove one hook event (a successful publication CAS): the L2 trace spec must not be able to explain the rest
    idx = next(i for i, l in enumerate(lines) if '"fn":"try_publish_leaked_internal"' in l and '"ok":true' in l)
    cut = lines[:idx] + lines[idx + 1:]
    p2 = trace + ".cut"
    open(p2, "w").write("\n".join(cut))
    runs2 = []
    for r in runs:
        r2 = dict(r)
        if r["line"] > idx + 1:
            r2["line"] -= 1
        runs2.append(r2)
    v2 = validate_trace(p2, runs2, "Trace_RingAtomic", consts, "selftest_cut", parallel=1)
    rejected2 = bool(v2["mismatches"] or v2["violations"])
    log("[selftest] one hook event removed: %s" % ("REJECTED" if rejected2 else "accepted -- BINDING BROKEN"))
    ok &= rejected2
    log("[selftest] %s" % ("ok" if ok else "FAILED"))
    return 0 if ok else 2
