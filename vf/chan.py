"""Channel-level checks (Uni / Multi): scenario builders and the judge for the L1 trace specs Trace_AbsUni / Trace_AbsMulti."""
import json, os
from .core import *
from .queues import op, dfs, rnd, subtrace, sample_run, KF_SPURIOUS_EMPTY, kf_spurious_empty_applies

UNI_KINDS = ["uni_move_atomic", "uni_move_fullsync", "uni_move_crossbeam", "uni_zc_atomic", "uni_zc_fullsync"]
UNI_RESERVE = ["uni_move_atomic", "uni_zc_atomic", "uni_zc_fullsync"]
UNI_ATOMIC = ["uni_move_atomic", "uni_zc_atomic"]
UNI_ZC = ["uni_zc_atomic", "uni_zc_fullsync"]
MULTI_KINDS = ["multi_arc_atomic", "multi_arc_fullsync", "multi_arc_crossbeam", "multi_ogre_atomic", "multi_ogre_fullsync", "multi_mmap"]
MULTI_NONLOG = MULTI_KINDS[:5]
MULTI_OGRE = ["multi_ogre_atomic", "multi_ogre_fullsync"]

ALL_UNI_CHECKS = ["InvDeliveredAtMostOnce", "InvLinearizable", "InvNoUseAfterFree", "InvDestroyedAtMostOnce", "InvDestroyedExactlyOnce", "InvNoLossNoInvention",
                  "InvNoLostWakeup", "InvCancelEndsStreams", "InvRejectedSetterUninvoked", "NoPanic", "InvNoStall"]


def S(v):
    return op("send", v)


def SW(v, y=True):
    return op("send_with", v, y=y)


def SA(v, susp=1):
    return op("send_async", v, susp=susp)


def DRIVE(s, max_=None, hold=False):
    d = op("drive", s=s, hold=hold)
    if max_ is not None:
        d["max"] = max_
    return d


def POLL(s, hold=False):
    return op("poll", s=s, hold=hold)


RSV = op("reserve")
FILL = lambda v: op("fill_last", v)
SENDR = op("send_reserved_first")
SENDRL = op("send_reserved_last")
CANCR = op("cancel_reserved_last")
SIC = lambda v: op("send_if_clear", v)
SWIC = lambda v, y=True: op("send_with_if_clear", v, y=y)
CANCEL_ALL = op("cancel_all")
CREATE = lambda how="new": op("create", how=how)
DROPS = lambda s: op("drop_stream", s=s)
REL = lambda h: op("release", h=h)
RELALL = op("release_all")
PENDING = op("pending")


def cscn(id_, kind, n, s, threads, explore, pre_streams=1, payload="tracked", drain=True, max_steps=3000, names=None):
    pre = ["new"] * pre_streams if isinstance(pre_streams, int) else list(pre_streams)
    return {"id": id_, "sut": kind, "n": n, "s": s, "origin": 0, "pre_streams": pre, "payload": payload, "drain": drain, "record_ops": False, "max_steps": max_steps,
            "threads": [{"name": (names[i] if names else "t%d" % i), "ops": ops} for i, ops in enumerate(threads)], "explore": explore}


def uni_consts(n, procs, kind, checks, relax=False):
    return {"N": n, "Procs": list(range(procs)), "RelaxEmpty": relax, "HeldTakeCap": kind in UNI_ZC, "Checks": ['"%s"' % x for x in checks]}


def multi_consts(n, procs, checks, nlis=6):
    return {"N": n, "Procs": list(range(procs)), "Ls": list(range(nlis)), "Checks": ['"%s"' % x for x in checks]}


def kf_match(kind, inv, entry_points):
    """the open known finding that explains a violation of `inv` on channel `kind`, or None"""
    for k in load_known_findings():
        if k.get("status") != "open" or "match" not in k:
            continue
        m = k["match"]
        if kind in m.get("kinds", []) and inv in m.get("invariants", []):
            return k
    return None


def judge_chan(check, scns, name, trace, runs, v, module, consts):
    by_id = {s["id"]: s for s in scns}
    for x in v["mismatches"]:
        check.tool_errors.append("the L1 trace spec %s cannot read a recorded history of %s (line %d: %s)" % (module, name, x["line"], json.dumps(x["event"])[:300]))
    seen = set()
    for x in v["violations"]:
        run = x["run"]
        key = (run["scn"], run["run"])
        if key in seen:
            continue
        seen.add(key)
        s = by_id[run["scn"]]
        k = kf_match(s["sut"], x["inv"], None)
        if k is not None:
            check.known_finding(k["id"], k.get("short", k["what"][:160]))
            if not any(sm.get("id") == k["id"] for sm in check.samples):
                check.sample({"kind": "known-finding trace", "id": k["id"], "scenario": run["scn"], "schedule": run["choices"], "invariant": x["inv"]})
            continue
        s2 = dict(s)
        s2["explore"] = {"mode": "replay", "schedules": [run["choices"]]}
        check.violation("%s violated by the real code (%s, scenario %s, run %d)" % (x["inv"], s["sut"], run["scn"], run["run"]),
                        {"scenario": s2, "run": run, "events": extract_run(trace, run), "module": module, "consts": {k2: tla_val(x2) for k2, x2 in consts.items()}, "invariant": x["inv"]})


def conform_chan(check, name, scns, module, consts, parallel=8, relax_kf=False, expect_stalls=False):
    trace, runs, v = check.conform(scns, name, module, consts, parallel=parallel)
    if relax_kf and v["violations"] and all(x["inv"] == "InvLinearizable" for x in v["violations"]) and kf_open(KF_SPURIOUS_EMPTY):
        # what the relaxed rule of the recorded finding explains is that finding; the rest stays a violation
        bad = {}
        for x in v["violations"]:
            bad[(x["run"]["scn"], x["run"]["run"])] = x
        sub, sub_runs = subtrace(trace, [x["run"] for x in bad.values()], "relax")
        c2 = dict(consts)
        c2["RelaxEmpty"] = True
        v2 = validate_trace(sub, sub_runs, module, c2, "%s_%s_relax" % (check.prop, name), parallel=4)
        for e in v2["errors"]:
            check.tool_errors.append("relaxed re-validation %s: %s" % (name, e))
        still = set((x["run"]["scn"], x["run"]["run"]) for x in v2["violations"]) | set((x["run"]["scn"], x["run"]["run"]) for x in v2["mismatches"])
        sut_of = {s_["id"]: s_ for s_ in scns}
        still |= set(k for k in bad if not kf_spurious_empty_applies(sut_of.get(k[0], {})))
        for k, x in bad.items():
            if k not in still:
                check.known_finding(KF_SPURIOUS_EMPTY, "AtomicMove: a dequeue answers 'empty' although an item published before its call is still queued, because the item's sequence number was claimed by another dequeue that is itself giving up")
        v = dict(v)
        v["violations"] = [x for k, x in bad.items() if k in still]
    judge_chan(check, scns, name, trace, runs, v, module, consts)
    if not expect_stalls:
        odd = [r for r in runs if r["outcome"] in ("stalled", "steplimit")]
        flagged = set((x["run"]["scn"], x["run"]["run"]) for x in v["violations"])
        odd = [r for r in odd if (r["scn"], r["run"]) not in flagged]
        if odd and "InvNoStall" not in [q.strip('"') for q in consts.get("Checks", [])]:
            check.notes.append("%s: %d run(s) ended %s (first: %s run %d, %s)" % (name, len(odd), odd[0]["outcome"], odd[0]["scn"], odd[0]["run"], json.dumps(odd[0]["finals"])[:300]))
    if runs:
        sample_run(check, trace, runs, scns, "validated API-level history of the real channel (%s)" % name)
    return trace, runs, v


def explore2(name, kind, n, s_, threads, c, mr, rr, seed_extra=0, **kw):
    return [cscn("%s_dfs" % name, kind, n, s_, threads, dfs(2, mr), **kw),
            cscn("%s_rnd" % name, kind, n, s_, threads, rnd(rr, c.seed * 1000 + seed_extra + n * 10 + s_), **kw)]
