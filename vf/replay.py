"""setup and deterministic replay of recorded violations"""
import glob, json, os
from .core import *


def setup():
    rc = 0
    try:
        build_harness("debug")
        build_harness("nochecks")
        build_harness("release")
    except ToolError as e:
        log("TOOL-ERROR setup: %s" % e)
        return 2
    os.makedirs(os.path.join(WORK, "tlc"), exist_ok=True)
    for f in sorted(glob.glob(os.path.join(SPEC, "*.tla"))):
        p = sh(["tla-sany", f], cwd=SPEC, check=False, timeout=300)
        if p.returncode != 0 or "error" in p.stdout.lower().replace("semantic errors:\n\n", ""):
            if "*** Errors" in p.stdout or "Fatal" in p.stdout or p.returncode != 0:
                log("TOOL-ERROR setup: SANY rejects %s\n%s" % (f, p.stdout[-1500:]))
                rc = 2
    log("[setup] %s" % ("ok" if rc == 0 else "failed"))
    return rc


def replay(path):
    d = json.load(open(path))
    s = d["scenario"]
    if d.get("exec_case"):
        trace, runs = run_exec([d["exec_case"]], "replay_" + os.path.basename(path).replace(".json", ""))
    elif d.get("recorded_only"):
        os.makedirs(os.path.join(WORK, "runs"), exist_ok=True)
        trace = os.path.join(WORK, "runs", "replay_" + os.path.basename(path).replace(".json", "") + ".trace.ndjson")
        with open(trace, "w") as f:
            for e in d["events"]:
                f.write(json.dumps(e) + "\n")
        runs = [dict(d["run"], line=1)]
    else:
        crashes = []
        if d.get("crash"):
            try:
                trace, runs, summ = run_harness([s], "replay_" + os.path.basename(path).replace(".json", ""), crashes=crashes)
            except ToolError:
                crashes = crashes or [{"signal": d["crash"]}]
            if crashes:
                log("VIOLATION property=%s replay=%s   (the real code crashed again with %s)" % (d.get("property"), path, crashes[0]["signal"]))
                return 1
            log("[replay] the scenario no longer crashes")
            return 0
        trace, runs, summ = run_harness([s], "replay_" + os.path.basename(path).replace(".json", ""))
    os.makedirs(os.path.join(WORK, "tlc"), exist_ok=True)
    consts = {k: v for k, v in d.get("consts", {}).items()}
    v = validate_trace(trace, runs, d["module"], consts, "replay", parallel=1)
    log("[replay] %s: outcome=%s diverged=%s" % (path, runs[0]["outcome"], runs[0]["diverged"]))
    for e in extract_run(trace, runs[0]):
        log("   " + json.dumps({k: e[k] for k in ("k", "t", "fn", "fld", "o", "a", "b", "r", "ok", "x")}))
    if v["violations"] or v["mismatches"]:
        for x in v["violations"]:
            log("VIOLATION property=%s replay=%s   (%s at trace line %d)" % (d.get("property"), path, x["inv"], x["line"]))
        for x in v["mismatches"]:
            log("MISMATCH at line %d: %s" % (x["line"], json.dumps(x["event"])))
        return 1
    log("[replay] accepted by %s" % d["module"])
    return 0
