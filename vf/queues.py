"""Checks whose oracle is the LinQueue monitor (C02, C13, C15, C16, C18): rings, pools, non-blocking queues."""
import json, os
from .core import *

U32 = 1 << 32


def op(name, v=0, i=0, **kw):
    d = {"op": name, "v": v, "i": i}
    d.update(kw)
    return d


def E(v):
    return op("enq", v)


D = op("deq")
L = op("len")


def scn(id_, sut, n, threads, explore, origin=0, s=1, **kw):
    d = {"id": id_, "sut": sut, "n": n, "s": s, "origin": origin,
         "threads": [{"name": "t%d" % i, "ops": ops} for i, ops in enumerate(threads)], "explore": explore}
    d.update(kw)
    return d


def dfs(bound, max_runs):
    return {"mode": "dfs", "bound": bound, "max_runs": max_runs}


def rnd(runs, seed, stay=50):
    return {"mode": "random", "runs": runs, "seed": seed, "stay": stay}


def subtrace(trace_path, runs_subset, suffix):
    """writes a trace holding only the given runs; returns (path, runs meta with new line numbers)"""
    with open(trace_path) as f:
        lines = f.readlines()
    starts = sorted(r["line"] for r in runs_subset)
    all_resets = [i + 1 for i, l in enumerate(lines) if l.startswith('{"a":0,"b":0,"fld":"","fn":"","k":"reset"') or '"k":"reset"' in l[:120]]
    nxt = {}
    for a, b in zip(all_resets, all_resets[1:] + [len(lines) + 1]):
        nxt[a] = b
    out = trace_path + "." + suffix
    new_runs = []
    n = 0
    with open(out, "w") as f:
        for r in sorted(runs_subset, key=lambda r: r["line"]):
            a = r["line"]
            b = nxt[a]
            r2 = dict(r)
            r2["line"] = n + 1
            new_runs.append(r2)
            f.writelines(lines[a - 1:b - 1])
            n += b - a
    return out, new_runs


KF_SPURIOUS_EMPTY = "KF-C02-spurious-empty"


def kf_spurious_empty_applies(scenario):
    """the recorded finding concerns AtomicMove's lock-free dequeue only: the rings / pools / queues / channels built on the atomic ring.
       A spurious 'empty' of anything else (the full-sync ring, crossbeam, the stacks) is a violation, whatever the relaxed rule would explain."""
    sut = str(scenario.get("sut") or (scenario.get("free") or {}).get("sut", ""))
    return "atomic" in sut and "stack" not in sut


def judge(check, scenarios, name, trace, runs, v, module, consts, allow_relax=True, l1_module="Trace_LinQueue", l1_consts=None):
    """Turns the result of a (strict-rule) trace validation into verdicts.
       - L1 invariant violations are re-judged under the relaxed rule of the recorded known finding;
         what the relaxed rule explains is the known finding, everything else is a VIOLATION.
       - L2 mismatches are drift: the runs concerned are re-judged by the L1-only oracle."""
    by_id = {s["id"]: s for s in scenarios}

    def replay_of(run, extra):
        s = dict(by_id[run["scn"]])
        if "free" in s:
            extra = dict(extra, recorded_only=True)     # real concurrency cannot be re-executed; the recorded history is re-judged
        else:
            s["explore"] = {"mode": "replay", "schedules": [run["choices"]]}
        d = {"scenario": s, "run": run, "events": extract_run(trace, run), "module": module, "consts": {k: tla_val(x) for k, x in consts.items()}}
        d.update(extra)
        return d

    viols = v["violations"]
    stalls = [x for x in viols if x["inv"] == "InvNoStall"]
    if stalls and check.prop not in ("C16", "C20"):
        # only the properties that promise non-blocking operations judge a stuck thread; elsewhere it is reported, not judged
        viols = [x for x in viols if x["inv"] != "InvNoStall"]
        check.notes.append("%s: %d run(s) ended with a thread stuck inside the code under test (first: %s run %d)" % (name, len(stalls), stalls[0]["run"]["scn"], stalls[0]["run"]["run"]))
        check.drift.append("%s: %d run(s) ended with a thread stuck for ever inside the code under test (judged by the checks of C16 / C20)" % (name, len(stalls)))
    if viols:
        bad_runs = {}
        for x in viols:
            bad_runs[(x["run"]["scn"], x["run"]["run"])] = x
        still = bad_runs
        if allow_relax and "RelaxEmpty" in consts and all(x["inv"] == "InvLinearizable" for x in viols):
            sub, sub_runs = subtrace(trace, [x["run"] for x in bad_runs.values()], "relax")
            c2 = dict(consts)
            c2["RelaxEmpty"] = True
            v2 = validate_trace(sub, sub_runs, module, c2, "%s_%s_relax" % (check.prop, name), parallel=4)
            for e in v2["errors"]:
                check.tool_errors.append("relaxed re-validation %s: %s" % (name, e))
            still_keys = set((x["run"]["scn"], x["run"]["run"]) for x in v2["violations"]) | set((x["run"]["scn"], x["run"]["run"]) for x in v2["mismatches"])
            still_keys |= set(k for k in bad_runs if not kf_spurious_empty_applies(by_id.get(k[0], {})))
            still = {k: x for k, x in bad_runs.items() if k in still_keys}
            explained = {k: x for k, x in bad_runs.items() if k not in still_keys}
            if explained:
                if kf_open(KF_SPURIOUS_EMPTY):
                    for k, x in explained.items():
                        check.known_finding(KF_SPURIOUS_EMPTY, "AtomicMove: a dequeue answers 'empty' although an item published before its call is still queued, because the item's sequence number was claimed by another dequeue that is itself giving up")
                    k0, x0 = sorted(explained.items())[0]
                    check.sample({"kind": "known-finding trace", "id": KF_SPURIOUS_EMPTY, "scenario": x0["run"]["scn"], "schedule": x0["run"]["choices"]})
                else:
                    still.update(explained)
        for k, x in sorted(still.items()):
            check.violation("%s violated by the real code (scenario %s, run %d, trace line %d)" % (x["inv"], k[0], k[1], x["line"]),
                            replay_of(x["run"], {"invariant": x["inv"]}))
    if v["mismatches"]:
        mis_runs = [m["run"] for m in v["mismatches"]] + list(v.get("unvalidated", []))
        if v.get("unvalidated"):
            # the runs the L2 specification did not get to are judged by the L1-only oracle as well
            check.tool_errors[:] = [e for e in check.tool_errors if not str(e).startswith("UNVALIDATED[%s]" % name)]
        ev0 = v["mismatches"][0]["event"]
        check.drift.append("%s: %d run(s) of the real code are not behaviours of %s (first unmatched event: %s)" % (name, len(mis_runs), module, json.dumps(ev0)[:300]))
        # fall back to the L1-only oracle for those runs
        sub, sub_runs = subtrace(trace, mis_runs, "l1")
        c1 = l1_consts if l1_consts is not None else {k: consts[k] for k in ("N", "Procs", "RelaxEmpty", "Prefill", "Mode") if k in consts}
        v1 = validate_trace(sub, sub_runs, l1_module, c1, "%s_%s_l1" % (check.prop, name), parallel=4)
        for e in v1["errors"]:
            check.tool_errors.append("L1 re-validation %s: %s" % (name, e))
        for x in v1["mismatches"]:
            check.tool_errors.append("L1 trace spec %s cannot read a recorded history (%s)" % (l1_module, json.dumps(x["event"])[:200]))
        if v1["violations"]:
            judge(check, scenarios, name + "_l1", sub, sub_runs, {"violations": v1["violations"], "mismatches": []}, l1_module, c1, allow_relax=allow_relax)


def sample_run(check, trace, runs, scenarios, what):
    if not runs:
        return
    r = runs[len(runs) // 2]
    evs = extract_run(trace, r)
    check.sample({"kind": what, "scenario": r["scn"], "schedule": r["choices"], "outcome": r["outcome"],
                  "events": [{k: e[k] for k in ("k", "t", "fn", "fld", "o", "a", "b", "r", "ok", "x")} for e in evs[:40]]})
